package exec

import (
	"fmt"
	"os"
	"strings"
	"sync"
	"time"

	"vpengine/smt"
	"vpengine/term"
)

// pathSolver answers feasibility queries on one long-lived solver process.
// All definitions are global; each query is a check-sat-assuming over the
// conjuncts of the path condition.
type pathSolver struct {
	proc    *smt.Proc
	printer *term.Printer
	sb      *strings.Builder
	b       *term.B
	Queries int
	Time    time.Duration
	timeout int
	nvars   int
}

func newPathSolver(b *term.B, bin string, timeoutMs int) (*pathSolver, error) {
	p, err := smt.Start(bin, "-in")
	if err != nil {
		return nil, err
	}
	ps := &pathSolver{proc: p, b: b, sb: &strings.Builder{}, timeout: timeoutMs}
	ps.printer = term.NewPrinter(b, ps.sb)
	ps.sb.WriteString(fmt.Sprintf("(set-option :timeout %d)\n", timeoutMs))
	return ps, nil
}

func (ps *pathSolver) close() {
	if ps.proc != nil {
		ps.proc.Close()
	}
}

func (ps *pathSolver) check(st *State, pc *pcList, c *term.Node) (smt.Result, *term.Model) {
	t0 := time.Now()
	defer func() { ps.Queries++; ps.Time += time.Since(t0) }()
	var lits []string
	for q := pc; q != nil; q = q.prev {
		if q.implied {
			continue
		}
		lits = append(lits, ps.printer.Define(q.cond))
	}
	lits = append(lits, ps.printer.Define(c))
	ps.sb.WriteString("(check-sat-assuming (")
	for _, l := range lits {
		if l == "true" {
			continue
		}
		ps.sb.WriteString(l)
		ps.sb.WriteByte(' ')
	}
	ps.sb.WriteString("))\n")
	// ask for the values of all variables and applications known to the printer
	gv := valueRequest(ps.printer)
	script := ps.sb.String()
	ps.sb.Reset()
	tq := time.Now()
	lines, ok := ps.proc.Exec(script, time.Duration(ps.timeout)*time.Millisecond+3*time.Second)
	if d := time.Since(tq); d > 500*time.Millisecond && os.Getenv("VP_PROF") != "" {
		fmt.Fprintf(os.Stderr, "slow feasibility query: %.2fs, %d bytes, answer %v at %s\n", d.Seconds(), len(script), lines, st.where())
	}
	if !ok {
		// process was restarted: all definitions are lost
		ps.printer = term.NewPrinter(ps.b, ps.sb)
		ps.sb.WriteString(fmt.Sprintf("(set-option :timeout %d)\n", ps.timeout))
		return smt.Unknown, nil
	}
	r, _ := smt.Answer(lines, true)
	if r != smt.Sat {
		return r, nil
	}
	if gv == "" {
		return smt.Sat, term.NewModel()
	}
	lines, ok = ps.proc.Exec(gv, 10*time.Second)
	if !ok {
		ps.printer = term.NewPrinter(ps.b, ps.sb)
		ps.sb.WriteString(fmt.Sprintf("(set-option :timeout %d)\n", ps.timeout))
		return smt.Unknown, nil
	}
	for _, l := range lines {
		if strings.HasPrefix(strings.TrimSpace(l), "(error") {
			return smt.Unknown, nil
		}
	}
	vals := smt.ParseValues(strings.Join(lines, "\n"))
	return smt.Sat, buildModel(ps.printer, vals)
}

func valueRequest(p *term.Printer) string {
	var sb strings.Builder
	n := 0
	for _, v := range p.Vars {
		fmt.Fprintf(&sb, "|%s| ", v.Name)
		n++
	}
	for _, a := range p.AppsPrinted() {
		sb.WriteString(p.AppRef(a) + " ")
		n++
	}
	if n == 0 {
		return ""
	}
	return "(get-value (" + sb.String() + "))"
}

// buildModel converts solver values into a term.Model including UF tables.
func buildModel(p *term.Printer, vals map[string]uint64) *term.Model {
	m := term.NewModel()
	for _, v := range p.Vars {
		m.Vars[v.Name] = vals[v.Name]
	}
	apps := p.AppsPrinted()
	if len(apps) > 0 {
		ev := term.NewEvaluator(m)
		for _, a := range apps {
			args := make([]uint64, len(a.Args))
			for i, x := range a.Args {
				args[i] = ev.Eval(x)
			}
			if m.UF[a.Name] == nil {
				m.UF[a.Name] = map[string]uint64{}
			}
			key := ""
			for i, x := range args {
				if i > 0 {
					key += ","
				}
				key += fmt.Sprint(x)
			}
			ref := strings.Trim(p.AppRef(a), "|")
			if _, dup := m.UF[a.Name][key]; !dup {
				m.UF[a.Name][key] = vals[ref]
			}
			// later applications may take earlier ones as arguments: refresh evaluator lazily
			ev = term.NewEvaluator(m)
		}
	}
	return m
}

// ---------------------------------------------------------------- VC submission

type vcJob struct {
	script string
	obs    []Obligation
	lits   []string // name of the violation literal per obligation
	inputs []inputVar
	prn    *term.Printer
}

type VCResult struct {
	Obs     []Obligation
	Result  smt.Result
	Model   *term.Model
	Failed  []int // indices into Obs whose negation holds in the model
	Secs    float64
	Script  string
	Inputs  map[string]uint64
	Checked string // second solver verdict, if any
}

// submit prints the VC for a group of obligations sharing one path condition
// and hands it to the pool asynchronously.
func (st *State) submit(grp []Obligation) {
	var sb strings.Builder
	pr := term.NewPrinter(st.b, &sb)
	pcs := grp[0].PC.slice()
	for _, c := range pcs {
		fmt.Fprintf(&sb, "(assert %s)\n", pr.Define(c))
	}
	cover := grp[0].Kind == "cover"
	var goal []string
	for _, o := range grp {
		r := pr.Define(o.Cond)
		if cover {
			goal = append(goal, r)
		} else {
			goal = append(goal, "(not "+r+")")
		}
	}
	if len(goal) == 1 {
		fmt.Fprintf(&sb, "(assert %s)\n", goal[0])
	} else {
		fmt.Fprintf(&sb, "(assert (or %s))\n", strings.Join(goal, " "))
	}
	sb.WriteString("(check-sat)\n")
	if gv := valueRequest(pr); gv != "" {
		sb.WriteString(gv + "\n")
	}
	st.res.VCs++
	job := vcJob{script: sb.String(), obs: grp, prn: pr}
	st.res.wg.Add(1)
	st.res.sem <- struct{}{}
	res := st.res
	pool := st.pool
	b := st.b
	timeout := st.inst.VCTimeoutMs
	inputs := append([]inputVar(nil), st.inputVars...)
	// Model evaluation touches the (non thread-safe) builder only through
	// read-only evaluation of existing nodes, which is safe as long as no
	// BitOf memoisation happens; Evaluator does not create nodes.
	_ = b
	go func() {
		defer res.wg.Done()
		defer func() { <-res.sem }()
		r, vals, dur := pool.Solve(job.script, timeout)
		vr := VCResult{Obs: job.obs, Result: r, Secs: dur.Seconds()}
		if r == smt.Sat {
			m := buildModel(job.prn, vals)
			vr.Model = m
			ev := term.NewEvaluator(m)
			for i, o := range job.obs {
				v := ev.Bool(o.Cond)
				if (o.Kind == "cover") == v {
					vr.Failed = append(vr.Failed, i)
				}
			}
			vr.Inputs = map[string]uint64{}
			for _, iv := range inputs {
				if v, ok := m.Vars[iv.Node.Name]; ok {
					vr.Inputs[iv.ID] = v
				}
			}
		}
		if r != smt.Unsat || res.keepScripts {
			vr.Script = job.script
		}
		res.mu.Lock()
		res.Results = append(res.Results, vr)
		res.SolverSecs += dur.Seconds()
		res.mu.Unlock()
	}()
}

// InstanceResult collects what one harness instance did.
type InstanceResult struct {
	Instance     *Instance
	Paths        int
	Infeasible   int
	Forks        int
	Merges       int
	LazyMerges   int
	MergeAborts  int
	Steps        int64
	VCs          int
	TrivialVCs   int
	FeasUnknown  int
	FeasQueries  int
	FeasSecs     float64
	SolverSecs   float64
	CoverHit     map[string]bool
	CoverSeen    map[string]bool
	Results      []VCResult
	CertainFail  []CertainFailure // panics / assertion failures that are certain on a path
	Errors       []string         // unsupported constructs, unwinding failures
	Leaks        []string
	WriteLog     []string
	Notes        []string
	Funcs        map[string]int // functions executed -> call count
	Wall         float64
	MaxLoop      int
	NodeCount    int
	keepScripts  bool
	sem          chan struct{}
	Goroutines   int
	AbortReasons map[string]int
	Asserts      int
	LockOps      int
	wg           sync.WaitGroup
	mu           sync.Mutex
	SamplePath   map[string]uint64
}

type CertainFailure struct {
	Kind   string
	Msg    string
	Pos    string
	Inputs map[string]uint64
	Model  *term.Model
}
