import json,sys
props=[json.loads(l)['id'] for l in open('/verif/properties.jsonl')]
claimed=json.load(open('/verif/claims.json'))
m={"version":1,
 "setup_cmd":"cd /verif/engine && GOFLAGS=-mod=vendor GOPROXY=off GOSUMDB=off GOTOOLCHAIN=local go build -o /verif/bin/vpcheck ./cmd/vpcheck",
 "hooks":{"guard":"verif","enable":"none needed: harness files are copied next to the packages they test inside a scratch copy of /repo's working tree (made on every run); /repo itself is never modified","baseline_off_cmd":"cd /repo && go test -vet=off -count=1 ./...","source_commits":claimed.get("_source_commits",[]),"add_only":True},
 "engines":[{"name":"vpengine","path":"/verif/engine","serves_properties":[p for p in props if p in claimed],"kind_free_text":"symbolic executor for go/ssa (built from /repo's current tree on every run) emitting SMT-LIB2; verdicts by z3 5.1.0 (z3-new), feasibility by the same solver; counterexamples replayed natively with go test"}],
 "checks":[],
 "notes":claimed.get("_notes",""),
 "not_applicable":[]}
for p in props:
    if p in claimed:
        c=claimed[p]
        m["checks"].append({"property_id":p,"quick_cmd":"./check %s quick"%p,"thorough_cmd":"./check %s thorough"%p,
          "evidence_file":"/verif/evidence/%s.json"%p,"replay_cmd_template":"./check %s --replay {path}"%p,"engine":"vpengine",
          "level_claimed":{"category":"model_checking","text":c["text"],"design_ref":c.get("design_ref","DESIGN.md section 4")},
          "level_note":c["note"],"technique":c.get("technique","bounded symbolic execution of the real go/ssa into SMT (z3); solver verdict per obligation; native replay of counterexamples")})
    else:
        m["not_applicable"].append({"property_id":p,"reason":claimed.get("_na",{}).get(p,"check not yet registered in this revision (engine under construction)")})
json.dump(m,open('/verif/MANIFEST.json','w'),indent=1)
