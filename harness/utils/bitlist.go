package utils

// C18 harnesses: BitList as an append-only bit sequence (inductive step from
// an arbitrary valid state).

// vpArbBitList builds an arbitrary BitList with L data words satisfying the
// representation invariant: 0 <= count <= 32*L and every bit at a position
// >= count is zero.
func vpArbBitList(L int) *BitList {
	bl := new(BitList)
	bl.data = make([]int32, L)
	for k := 0; k < L; k++ {
		bl.data[k] = vpInt32("w", k)
	}
	c := vpInt("count")
	vpAssume(c >= 0 && c <= 32*L)
	bl.count = c
	for k := 0; k < L; k++ {
		w := uint32(bl.data[k])
		if c <= 32*k {
			vpAssume(w == 0)
		} else if c < 32*(k+1) {
			used := uint(c - 32*k) // 1..31 leading bits in use
			vpAssume(w<<used == 0)
		}
	}
	return bl
}

// vpBitAt is the reference reading of bit i of the packed words (MSB first).
func vpBitAt(data []int32, i int) bool {
	return (uint32(data[i/32])>>(31-uint(i%32)))&1 == 1
}

func VP_BL_set() {
	L := vpConfig("L")
	bl := vpArbBitList(L)
	c := bl.count
	i := vpInt("i")
	j := vpInt("j")
	v := vpBool("v")
	vpAssume(i >= 0 && i < c)
	vpAssume(j >= 0 && j < c)
	old := bl.GetBit(j)
	bl.SetBit(i, v)
	got := bl.GetBit(j)
	vpAssert(bl.Len() == c, "SetBit must not change the length")
	vpAssert(len(bl.data) == L, "SetBit must not reallocate")
	if j == i {
		vpAssert(got == v, "SetBit(i,v) then GetBit(i) must give v")
	} else {
		vpAssert(got == old, "SetBit(i,v) must leave every other bit unchanged")
	}
	vpCover("same-index", j == i)
	vpCover("other-index", j != i)
	vpCover("last-bit", i == c-1)
}

func VP_BL_get() {
	L := vpConfig("L")
	bl := vpArbBitList(L)
	j := vpInt("j")
	vpAssume(j >= 0 && j < bl.count)
	vpAssert(bl.GetBit(j) == vpBitAt(bl.data, j), "GetBit reads bit j MSB-first from word j/32")
	vpCover("word-boundary", j%32 == 31)
}
