package code93

import (
	"image"
	"image/color"

	"github.com/boombuler/barcode"
)

// C07 (Code 93) with C10 / C11 side conditions.
//
// Reference: 47 data characters with values 0..46 in the order
// 0-9 A-Z - . space $ / + % ($) (%) (/) (+) and the start/stop character (47);
// nine-module patterns from the symbology specification; check characters C
// (weights 1..20 from the right) and K (weights 1..15 over data and C), modulo 47;
// termination bar after the stop character.

var vpPat93 = [48]int{
	0x114, 0x148, 0x144, 0x142, 0x128, 0x124, 0x122, 0x150, 0x112, 0x10A,
	0x1A8, 0x1A4, 0x1A2, 0x194, 0x192, 0x18A, 0x168, 0x164, 0x162, 0x134,
	0x11A, 0x158, 0x14C, 0x146, 0x12C, 0x116, 0x1B4, 0x1B2, 0x1AC, 0x1A6,
	0x196, 0x19A, 0x16C, 0x166, 0x136, 0x13A, 0x12E, 0x1D4, 0x1D2, 0x1CA,
	0x16E, 0x176, 0x1AE, 0x126, 0x1DA, 0x1D6, 0x132, 0x15E,
}

const vpAlpha93 = "0123456789ABCDEFGHIJKLMNOPQRSTUVWXYZ-. $/+%"

type vpCol struct{ id int }

func (c vpCol) RGBA() (r, g, b, a uint32) { return uint32(c.id), 0, 0, 0xffff }

func vpValue93(c int) int {
	v := -1
	for k := 0; k < len(vpAlpha93); k++ {
		if c == int(vpAlpha93[k]) {
			v = k
		}
	}
	return v
}

// full-ASCII spelling as character VALUES (shift characters are 43..46); second value -1 = none
func vpExt93(c int) (int, int) {
	const sd, sp, ss, sq = 43, 44, 45, 46 // ($) (%) (/) (+)
	l := func(ch int) int { return 10 + ch - 'A' }
	switch {
	case c == 0:
		return sp, l('U')
	case c >= 1 && c <= 26:
		return sd, l('A' + c - 1)
	case c >= 27 && c <= 31:
		return sp, l('A' + c - 27)
	case c == ' ' || c == '-' || c == '.' || (c >= '0' && c <= '9') || (c >= 'A' && c <= 'Z'):
		return vpValue93(c), -1
	case c >= 33 && c <= 44:
		return ss, l('A' + c - 33)
	case c == 47:
		return ss, l('O')
	case c == 58:
		return ss, l('Z')
	case c >= 59 && c <= 63:
		return sp, l('F' + c - 59)
	case c == 64:
		return sp, l('V')
	case c >= 91 && c <= 95:
		return sp, l('K' + c - 91)
	case c == 96:
		return sp, l('W')
	case c >= 97 && c <= 122:
		return sq, l('A' + c - 97)
	case c >= 123 && c <= 127:
		return sp, l('P' + c - 123)
	}
	return -1, -1
}

func VP_C93() {
	n := vpConfig("n")
	withCS := vpConfig("cs") == 1
	full := vpConfig("full") == 1
	content := vpString("c", n)
	for i := 0; i < n; i++ {
		vpAssume(content[i] < 128) // ASCII instance family (the FNC placeholders U+00F1..U+00F4 are covered by VP_C93_fnc)
	}
	scheme := barcode.ColorScheme16
	var bc barcode.Barcode
	var err error
	if vpConfig("color") == 1 {
		scheme = barcode.ColorScheme{Model: color.Gray16Model, Foreground: vpCol{1}, Background: vpCol{2}}
		bc, err = EncodeWithColor(content, withCS, full, scheme)
	} else {
		bc, err = Encode(content, withCS, full)
	}
	vpAssert((bc == nil) != (err == nil), "exactly one of barcode and error is nil")
	ok := true
	for i := 0; i < n; i++ {
		if !full {
			ok = ok && vpValue93(int(content[i])) >= 0
		}
	}
	if !ok {
		vpAssert(err != nil, "characters outside the basic alphabet (and '*') are rejected in basic mode")
		vpCover("rejected", true)
		return
	}
	vpAssert(err == nil && bc != nil, "text over the mode's alphabet is accepted")
	if bc == nil {
		return
	}
	vpCover("accepted", true)
	vals := make([]int, 0, 2*n+2)
	for i := 0; i < n; i++ {
		if full {
			a, b := vpExt93(int(content[i]))
			vals = append(vals, a)
			if vpConcretize(b) >= 0 {
				vals = append(vals, b)
			}
		} else {
			vals = append(vals, vpValue93(int(content[i])))
		}
	}
	ndata := len(vals)
	if withCS {
		c, w := 0, 1
		for i := ndata - 1; i >= 0; i-- {
			c += vals[i] * w
			w++
			if w > 20 {
				w = 1
			}
		}
		vals = append(vals, c%47)
		k, w2 := 0, 1
		for i := ndata; i >= 0; i-- {
			k += vals[i] * w2
			w2++
			if w2 > 15 {
				w2 = 1
			}
		}
		vals = append(vals, k%47)
	}
	md := bc.Metadata()
	vpAssert(md.CodeKind == "Code 93" && md.Dimensions == 1, "metadata says Code 93, 1D")
	vpAssert(bc.ColorModel() == scheme.Model, "ColorModel is the scheme's model")
	if cs, isC := bc.(barcode.BarcodeColor); isC {
		g := cs.ColorScheme()
		vpAssert(g.Model == scheme.Model && g.Foreground == scheme.Foreground && g.Background == scheme.Background, "ColorScheme() reports the scheme in force")
	} else {
		vpAssert(false, "Code 93 barcodes expose their colour scheme")
	}
	if !full {
		vpAssert(bc.Content() == content, "Content is the text")
	}
	syms := len(vals) + 2
	width := syms*9 + 1
	vpAssert(bc.Bounds() == image.Rect(0, 0, width, 1), "bounds: start, data, requested check characters, stop, termination bar")
	if bc.Bounds().Dx() != width {
		return
	}
	for s := 0; s < syms; s++ {
		m := vpPat93[47]
		if s > 0 && s < syms-1 {
			m = vpPat93[vals[s-1]]
		}
		for k := 0; k < 9; k++ {
			bar := (m>>uint(8-k))&1 == 1
			px := bc.At(s*9+k, 0)
			vpAssert((px == scheme.Foreground) == bar, "module is a bar exactly where the character's pattern has one")
			vpAssert((px == scheme.Background) == !bar, "pixels are exactly foreground or background")
		}
	}
	vpAssert(bc.At(width-1, 0) == scheme.Foreground, "termination bar")
}

// C15 / C16: purity (deterministic, history-free, no package-level writes)
func VP_PURE() {
	n := vpConfig("n")
	content := vpString("c", n)
	for i := 0; i < n; i++ {
		vpAssume(content[i] >= 'A' && content[i] <= 'Z')
	}
	vpTrackGlobals()
	a, errA := Encode(content, true, false)
	_, _ = Encode("OTHER-93", true, true)
	b, errB := Encode(content, true, false)
	vpAssert((errA == nil) == (errB == nil), "the same call succeeds or fails the same way every time ")
	if errA == nil && errB == nil {
		vpAssert(a.Bounds() == b.Bounds() && a.Content() == b.Content(), "the same call returns the same barcode whatever was encoded before")
		if a.Bounds() == b.Bounds() {
			for x := 0; x < a.Bounds().Dx(); x++ {
				vpAssert(a.At(x, 0) == b.At(x, 0), "the same call returns the same pixels whatever was encoded before")
			}
		}
	}
	vpAssert(vpGlobalWrites() == 0, "no package-level state is written")
	vpCover("reached", true)
}

// C15: the check character search ranges over a map; its result must not depend on the iteration order
func VP_C93_maporder() {
	n := vpConfig("n")
	content := vpString("c", n)
	for i := 0; i < n; i++ {
		vpAssume(content[i] < 128 && vpValue93(int(content[i])) >= 0)
	}
	for _, w := range []int{20, 15} {
		vpMapOrder(false)
		a := getChecksum(content, w)
		for r := 0; r < vpNativeRepeat(300); r++ {
			vpMapOrder(true)
			b := getChecksum(content, w)
			vpMapOrder(false)
			vpAssert(a == b, "the check character does not depend on the order in which the table is iterated")
		}
	}
	vpCover("reached", true)
}
