// Package term is the hash-consed term layer of the symbolic executor:
// bit-vector and Boolean terms with eager simplification, interval and
// known-zero-bit analysis, per-bit slicing (bitOf) with an n-ary XOR normal
// form, evaluation under a model and SMT-LIB2 printing.
package term

import (
	"fmt"
	"math/bits"
	"sort"
	"strings"
)

type Op uint8

const (
	OpConst Op = iota
	OpVar
	OpAdd
	OpSub
	OpMul
	OpUDiv
	OpURem
	OpSDiv
	OpSRem
	OpAnd
	OpOr
	OpXor
	OpNot
	OpNeg
	OpShl
	OpLShr
	OpAShr
	OpExtract // K=hi, K2=lo
	OpConcat  // Args[0] high, Args[1] low
	OpZExt
	OpSExt
	OpIte // Args: cond(Bool), a, b  (BV or Bool result, W decides)
	OpB2V // Bool -> BV(W): 1 / 0
	// Bool-valued
	OpEq
	OpUlt
	OpUle
	OpSlt
	OpSle
	OpBAnd // n-ary
	OpBOr  // n-ary
	OpBXor // n-ary normal form: K=const (0/1), Args sorted unique atoms
	OpBit  // bit K of Args[0]
	OpApp  // uninterpreted application: Name, Args; W result width
)

var opNames = map[Op]string{OpAdd: "bvadd", OpSub: "bvsub", OpMul: "bvmul", OpUDiv: "bvudiv", OpURem: "bvurem",
	OpSDiv: "bvsdiv", OpSRem: "bvsrem", OpAnd: "bvand", OpOr: "bvor", OpXor: "bvxor", OpNot: "bvnot", OpNeg: "bvneg",
	OpShl: "bvshl", OpLShr: "bvlshr", OpAShr: "bvashr", OpConcat: "concat", OpEq: "=", OpUlt: "bvult", OpUle: "bvule",
	OpSlt: "bvslt", OpSle: "bvsle", OpBAnd: "and", OpBOr: "or"}

// Node is an immutable hash-consed term. W == 0 means Bool.
type Node struct {
	ID   int
	Op   Op
	W    int
	Args []*Node
	K    uint64
	K2   int
	Name string
	// analysis results (BV only)
	ULo, UHi uint64 // unsigned interval
	SLo, SHi int64  // signed interval
	KZ       uint64 // bits known to be zero
}

func (n *Node) IsConst() bool { return n.Op == OpConst }
func (n *Node) IsBool() bool  { return n.W == 0 }

// ConstVal returns the constant value (zero-extended) and whether n is constant.
func (n *Node) ConstVal() (uint64, bool) {
	if n.Op == OpConst {
		return n.K, true
	}
	return 0, false
}

// SVal returns the constant as a signed number.
func (n *Node) SVal() int64 { return sx(n.K, n.W) }

func (n *Node) String() string {
	switch n.Op {
	case OpConst:
		if n.W == 0 {
			if n.K != 0 {
				return "true"
			}
			return "false"
		}
		return fmt.Sprintf("%d:bv%d", n.K, n.W)
	case OpVar:
		return n.Name
	}
	return fmt.Sprintf("n%d", n.ID)
}

func mask(w int) uint64 {
	if w >= 64 {
		return ^uint64(0)
	}
	return (uint64(1) << uint(w)) - 1
}

func sx(v uint64, w int) int64 {
	if w >= 64 {
		return int64(v)
	}
	if w == 0 {
		return int64(v)
	}
	if v&(uint64(1)<<uint(w-1)) != 0 {
		return int64(v | ^mask(w))
	}
	return int64(v)
}

type key struct {
	op         Op
	w          int
	k          uint64
	k2         int
	name       string
	a0, a1, a2 int
	extra      string
}

// B is a term builder (one per worker; not safe for concurrent use).
type B struct {
	tab     map[key]*Node
	nextID  int
	True    *Node
	False   *Node
	bitMemo map[[2]int]*Node
	extMemo map[[3]int]*Node
	Vars    []*Node // all variables in creation order
	varByNm map[string]*Node
	Apps    []*Node // all UF applications
	NoBits  bool    // disable bit-level equality normalisation (debug)
}

func NewB() *B {
	b := &B{tab: map[key]*Node{}, bitMemo: map[[2]int]*Node{}, extMemo: map[[3]int]*Node{}, varByNm: map[string]*Node{}}
	b.True = b.mk(&Node{Op: OpConst, W: 0, K: 1})
	b.False = b.mk(&Node{Op: OpConst, W: 0, K: 0})
	return b
}

func (b *B) NumNodes() int { return b.nextID }

func (b *B) mk(n *Node) *Node {
	k := key{op: n.Op, w: n.W, k: n.K, k2: n.K2, name: n.Name, a0: -1, a1: -1, a2: -1}
	switch len(n.Args) {
	case 0:
	case 1:
		k.a0 = n.Args[0].ID
	case 2:
		k.a0, k.a1 = n.Args[0].ID, n.Args[1].ID
	case 3:
		k.a0, k.a1, k.a2 = n.Args[0].ID, n.Args[1].ID, n.Args[2].ID
	default:
		var sb strings.Builder
		for _, a := range n.Args {
			fmt.Fprintf(&sb, "%d,", a.ID)
		}
		k.extra = sb.String()
	}
	if o, ok := b.tab[k]; ok {
		return o
	}
	n.ID = b.nextID
	b.nextID++
	if n.W > 0 {
		b.analyse(n)
		// a term whose interval is a single value is that constant
		if n.Op != OpConst && n.Op != OpVar && n.ULo == n.UHi {
			c := b.Const(n.W, n.ULo)
			b.tab[k] = c
			return c
		}
	}
	b.tab[k] = n
	return n
}

// ---------------------------------------------------------------- constructors

func (b *B) Const(w int, v uint64) *Node {
	if w == 0 {
		if v != 0 {
			return b.True
		}
		return b.False
	}
	return b.mk(&Node{Op: OpConst, W: w, K: v & mask(w)})
}

func (b *B) Bool(v bool) *Node {
	if v {
		return b.True
	}
	return b.False
}

// Var returns the variable with that name (creating it at width w; w==0 Bool).
func (b *B) Var(name string, w int) *Node {
	if v, ok := b.varByNm[name]; ok {
		if v.W != w {
			panic(fmt.Sprintf("term: variable %s redeclared with width %d (was %d)", name, w, v.W))
		}
		return v
	}
	v := b.mk(&Node{Op: OpVar, W: w, Name: name})
	b.varByNm[name] = v
	b.Vars = append(b.Vars, v)
	return v
}

func (b *B) LookupVar(name string) *Node { return b.varByNm[name] }

// App builds an uninterpreted application (result width w, w==0 Bool).
func (b *B) App(name string, w int, args ...*Node) *Node {
	n := b.mk(&Node{Op: OpApp, W: w, Name: name, Args: args})
	found := false
	for _, a := range b.Apps {
		if a == n {
			found = true
			break
		}
	}
	if !found {
		b.Apps = append(b.Apps, n)
	}
	return n
}

func (b *B) bin(op Op, x, y *Node) *Node {
	if x.W != y.W {
		panic(fmt.Sprintf("term: width mismatch %v: %d vs %d", opNames[op], x.W, y.W))
	}
	return b.mk(&Node{Op: op, W: x.W, Args: []*Node{x, y}})
}

func (b *B) Add(x, y *Node) *Node {
	w := x.W
	if cx, ok := x.ConstVal(); ok {
		if cy, ok := y.ConstVal(); ok {
			return b.Const(w, cx+cy)
		}
		x, y = y, x // constant to the right
	}
	if cy, ok := y.ConstVal(); ok {
		if cy == 0 {
			return x
		}
		// (a + c1) + c2
		if x.Op == OpAdd {
			if c1, ok := x.Args[1].ConstVal(); ok {
				return b.Add(x.Args[0], b.Const(w, c1+cy))
			}
		}
		if x.Op == OpSub {
			if c1, ok := x.Args[1].ConstVal(); ok { // (a - c1) + c2
				return b.Add(x.Args[0], b.Const(w, cy-c1))
			}
		}
	}
	// disjoint bits: a + b == a | b  (keeps bit structure visible)
	if (^x.KZ & ^y.KZ & mask(w)) == 0 {
		return b.Or(x, y)
	}
	if x.ID > y.ID && !y.IsConst() {
		x, y = y, x
	}
	return b.bin(OpAdd, x, y)
}

func (b *B) Sub(x, y *Node) *Node {
	w := x.W
	if x == y {
		return b.Const(w, 0)
	}
	if cy, ok := y.ConstVal(); ok {
		if cx, ok := x.ConstVal(); ok {
			return b.Const(w, cx-cy)
		}
		return b.Add(x, b.Const(w, -cy))
	}
	// (a + c) - a = c ; (a + y) - y
	if x.Op == OpAdd {
		if x.Args[0] == y {
			return x.Args[1]
		}
		if x.Args[1] == y {
			return x.Args[0]
		}
	}
	return b.bin(OpSub, x, y)
}

func (b *B) Mul(x, y *Node) *Node {
	w := x.W
	if cx, ok := x.ConstVal(); ok {
		if cy, ok := y.ConstVal(); ok {
			return b.Const(w, cx*cy)
		}
		x, y = y, x
	}
	if cy, ok := y.ConstVal(); ok {
		switch {
		case cy == 0:
			return b.Const(w, 0)
		case cy == 1:
			return x
		case cy&(cy-1) == 0:
			return b.Shl(x, b.Const(w, uint64(bits.TrailingZeros64(cy))))
		}
	}
	// multiplication by a 0/1 value: select
	if x.UHi <= 1 {
		return b.Ite(b.Eq(x, b.Const(w, 1)), y, b.Const(w, 0))
	}
	if y.UHi <= 1 {
		return b.Ite(b.Eq(y, b.Const(w, 1)), x, b.Const(w, 0))
	}
	if x.ID > y.ID && !y.IsConst() {
		x, y = y, x
	}
	return b.bin(OpMul, x, y)
}

// narrow returns the smallest convenient width that holds all values <= hi.
func narrowW(hi uint64) int {
	n := bits.Len64(hi)
	if n < 1 {
		n = 1
	}
	return n
}

func (b *B) UDiv(x, y *Node) *Node {
	w := x.W
	if cy, ok := y.ConstVal(); ok {
		if cx, ok := x.ConstVal(); ok {
			if cy == 0 {
				return b.Const(w, mask(w))
			}
			return b.Const(w, cx/cy)
		}
		if cy == 1 {
			return x
		}
		if cy != 0 && cy&(cy-1) == 0 {
			return b.LShr(x, b.Const(w, uint64(bits.TrailingZeros64(cy))))
		}
		if cy != 0 && x.UHi < cy {
			return b.Const(w, 0)
		}
	}
	// perform the division at a narrower width when both operands are small
	if hi := maxu(x.UHi, y.UHi); w > 8 && narrowW(hi) <= w-8 {
		nw := narrowW(hi)
		r := b.bin(OpUDiv, b.Extract(x, nw-1, 0), b.Extract(y, nw-1, 0))
		if y.ULo == 0 { // division by zero yields all ones at the original width
			return b.Ite(b.Eq(y, b.Const(w, 0)), b.Const(w, mask(w)), b.ZExt(r, w))
		}
		return b.ZExt(r, w)
	}
	return b.bin(OpUDiv, x, y)
}

func (b *B) URem(x, y *Node) *Node {
	w := x.W
	if cy, ok := y.ConstVal(); ok {
		if cx, ok := x.ConstVal(); ok {
			if cy == 0 {
				return x
			}
			return b.Const(w, cx%cy)
		}
		if cy == 1 {
			return b.Const(w, 0)
		}
		if cy != 0 && cy&(cy-1) == 0 {
			return b.And(x, b.Const(w, cy-1))
		}
		if cy != 0 && x.UHi < cy {
			return x
		}
		if cy != 0 && x.ULo >= cy && x.UHi < 2*cy && 2*cy > cy {
			return b.Sub(x, y)
		}
		if cy != 0 && x.UHi < 2*cy && 2*cy > cy {
			return b.Ite(b.Ult(x, y), x, b.Sub(x, y))
		}
	}
	if hi := maxu(x.UHi, y.UHi); w > 8 && narrowW(hi) <= w-8 {
		nw := narrowW(hi)
		r := b.bin(OpURem, b.Extract(x, nw-1, 0), b.Extract(y, nw-1, 0))
		return b.ZExt(r, w)
	}
	return b.bin(OpURem, x, y)
}

func maxu(a, c uint64) uint64 {
	if a > c {
		return a
	}
	return c
}

func (b *B) SDiv(x, y *Node) *Node {
	w := x.W
	if cx, ok := x.ConstVal(); ok {
		if cy, ok := y.ConstVal(); ok && cy != 0 {
			sxv, syv := sx(cx, w), sx(cy, w)
			if !(syv == -1 && sxv == sx(uint64(1)<<uint(w-1), w)) {
				return b.Const(w, uint64(sxv/syv))
			}
			return b.Const(w, cx)
		}
	}
	if x.SLo >= 0 && y.SLo >= 0 {
		return b.UDiv(x, y)
	}
	return b.bin(OpSDiv, x, y)
}

func (b *B) SRem(x, y *Node) *Node {
	w := x.W
	if cx, ok := x.ConstVal(); ok {
		if cy, ok := y.ConstVal(); ok && cy != 0 {
			sxv, syv := sx(cx, w), sx(cy, w)
			if syv == -1 {
				return b.Const(w, 0)
			}
			return b.Const(w, uint64(sxv%syv))
		}
	}
	if x.SLo >= 0 && y.SLo >= 0 {
		return b.URem(x, y)
	}
	return b.bin(OpSRem, x, y)
}

func (b *B) And(x, y *Node) *Node {
	w := x.W
	if x == y {
		return x
	}
	if cx, ok := x.ConstVal(); ok {
		if cy, ok := y.ConstVal(); ok {
			return b.Const(w, cx&cy)
		}
		x, y = y, x
	}
	if cy, ok := y.ConstVal(); ok {
		if cy == 0 {
			return b.Const(w, 0)
		}
		// mask covers all possibly-set bits
		if (^x.KZ&mask(w))&^cy == 0 {
			return x
		}
		if x.Op == OpAnd {
			if c1, ok := x.Args[1].ConstVal(); ok {
				return b.And(x.Args[0], b.Const(w, c1&cy))
			}
		}
	}
	if (^x.KZ & ^y.KZ & mask(w)) == 0 {
		return b.Const(w, 0)
	}
	if x.ID > y.ID && !y.IsConst() {
		x, y = y, x
	}
	return b.bin(OpAnd, x, y)
}

func (b *B) Or(x, y *Node) *Node {
	w := x.W
	if x == y {
		return x
	}
	if cx, ok := x.ConstVal(); ok {
		if cy, ok := y.ConstVal(); ok {
			return b.Const(w, cx|cy)
		}
		x, y = y, x
	}
	if cy, ok := y.ConstVal(); ok {
		if cy == 0 {
			return x
		}
		if cy == mask(w) {
			return y
		}
	}
	if x.ID > y.ID && !y.IsConst() {
		x, y = y, x
	}
	return b.bin(OpOr, x, y)
}

func (b *B) Xor(x, y *Node) *Node {
	w := x.W
	if x == y {
		return b.Const(w, 0)
	}
	if cx, ok := x.ConstVal(); ok {
		if cy, ok := y.ConstVal(); ok {
			return b.Const(w, cx^cy)
		}
		x, y = y, x
	}
	if cy, ok := y.ConstVal(); ok {
		if cy == 0 {
			return x
		}
		if cy == mask(w) {
			return b.Not(x)
		}
	}
	if x.ID > y.ID && !y.IsConst() {
		x, y = y, x
	}
	return b.bin(OpXor, x, y)
}

func (b *B) Not(x *Node) *Node {
	if c, ok := x.ConstVal(); ok {
		return b.Const(x.W, ^c)
	}
	if x.Op == OpNot {
		return x.Args[0]
	}
	return b.mk(&Node{Op: OpNot, W: x.W, Args: []*Node{x}})
}

func (b *B) Neg(x *Node) *Node {
	if c, ok := x.ConstVal(); ok {
		return b.Const(x.W, -c)
	}
	if x.Op == OpNeg {
		return x.Args[0]
	}
	return b.mk(&Node{Op: OpNeg, W: x.W, Args: []*Node{x}})
}

// shift amounts have the same width as x (caller normalises).
func (b *B) Shl(x, y *Node) *Node {
	w := x.W
	if cy, ok := y.ConstVal(); ok {
		if cy == 0 {
			return x
		}
		if cy >= uint64(w) {
			return b.Const(w, 0)
		}
		if cx, ok := x.ConstVal(); ok {
			return b.Const(w, cx<<cy)
		}
	}
	if cx, ok := x.ConstVal(); ok && cx == 0 {
		return x
	}
	return b.bin(OpShl, x, y)
}

func (b *B) LShr(x, y *Node) *Node {
	w := x.W
	if cy, ok := y.ConstVal(); ok {
		if cy == 0 {
			return x
		}
		if cy >= uint64(w) {
			return b.Const(w, 0)
		}
		if cx, ok := x.ConstVal(); ok {
			return b.Const(w, cx>>cy)
		}
		if x.UHi>>cy == 0 {
			return b.Const(w, 0)
		}
	}
	if cx, ok := x.ConstVal(); ok && cx == 0 {
		return x
	}
	return b.bin(OpLShr, x, y)
}

func (b *B) AShr(x, y *Node) *Node {
	w := x.W
	if x.SLo >= 0 {
		return b.LShr(x, y)
	}
	if cy, ok := y.ConstVal(); ok {
		if cy == 0 {
			return x
		}
		if cy >= uint64(w) {
			cy = uint64(w - 1)
			y = b.Const(w, cy)
		}
		if cx, ok := x.ConstVal(); ok {
			return b.Const(w, uint64(sx(cx, w)>>cy))
		}
	}
	return b.bin(OpAShr, x, y)
}

func (b *B) Extract(x *Node, hi, lo int) *Node {
	if lo == 0 && hi-lo+1 == x.W {
		return x
	}
	if x.Op == OpConst || x.Op == OpVar {
		return b.extract(x, hi, lo)
	}
	k := [3]int{x.ID, hi, lo}
	if r, ok := b.extMemo[k]; ok {
		return r
	}
	r := b.extract(x, hi, lo)
	b.extMemo[k] = r
	return r
}

func (b *B) extract(x *Node, hi, lo int) *Node {
	w := hi - lo + 1
	if lo == 0 && w == x.W {
		return x
	}
	if w <= 0 || hi >= x.W {
		panic(fmt.Sprintf("term: bad extract [%d:%d] of bv%d", hi, lo, x.W))
	}
	if c, ok := x.ConstVal(); ok {
		return b.Const(w, c>>uint(lo))
	}
	switch x.Op {
	case OpZExt:
		a := x.Args[0]
		if hi < a.W {
			return b.Extract(a, hi, lo)
		}
		if lo >= a.W {
			return b.Const(w, 0)
		}
		if lo == 0 {
			return b.ZExt(a, w)
		}
	case OpSExt:
		a := x.Args[0]
		if hi < a.W {
			return b.Extract(a, hi, lo)
		}
		if lo == 0 {
			return b.SExt(a, w)
		}
	case OpExtract:
		return b.Extract(x.Args[0], hi+x.K2, lo+x.K2)
	case OpConcat:
		l := x.Args[1]
		if hi < l.W {
			return b.Extract(l, hi, lo)
		}
		if lo >= l.W {
			return b.Extract(x.Args[0], hi-l.W, lo-l.W)
		}
	case OpAnd, OpOr, OpXor:
		if lo == 0 {
			// truncation distributes over bitwise ops
			l, r := b.Extract(x.Args[0], hi, 0), b.Extract(x.Args[1], hi, 0)
			switch x.Op {
			case OpAnd:
				return b.And(l, r)
			case OpOr:
				return b.Or(l, r)
			default:
				return b.Xor(l, r)
			}
		}
	case OpAdd, OpSub, OpMul, OpShl:
		if lo == 0 {
			l, r := b.Extract(x.Args[0], hi, 0), b.Extract(x.Args[1], hi, 0)
			switch x.Op {
			case OpAdd:
				return b.Add(l, r)
			case OpSub:
				return b.Sub(l, r)
			case OpMul:
				return b.Mul(l, r)
			case OpShl:
				if c, ok := x.Args[1].ConstVal(); ok {
					return b.Shl(l, b.Const(w, c))
				}
			}
		}
	case OpIte:
		return b.Ite(x.Args[0], b.Extract(x.Args[1], hi, lo), b.Extract(x.Args[2], hi, lo))
	}
	return b.mk(&Node{Op: OpExtract, W: w, Args: []*Node{x}, K: uint64(hi), K2: lo})
}

func (b *B) Concat(hi, lo *Node) *Node {
	if ch, ok := hi.ConstVal(); ok {
		if cl, ok := lo.ConstVal(); ok {
			return b.Const(hi.W+lo.W, ch<<uint(lo.W)|cl)
		}
		if ch == 0 {
			return b.ZExt(lo, hi.W+lo.W)
		}
	}
	return b.mk(&Node{Op: OpConcat, W: hi.W + lo.W, Args: []*Node{hi, lo}})
}

func (b *B) ZExt(x *Node, w int) *Node {
	if w == x.W {
		return x
	}
	if w < x.W {
		return b.Extract(x, w-1, 0)
	}
	if c, ok := x.ConstVal(); ok {
		return b.Const(w, c)
	}
	if x.Op == OpZExt {
		return b.ZExt(x.Args[0], w)
	}
	if x.Op == OpIte {
		if _, ok := x.Args[1].ConstVal(); ok {
			if _, ok := x.Args[2].ConstVal(); ok {
				return b.Ite(x.Args[0], b.ZExt(x.Args[1], w), b.ZExt(x.Args[2], w))
			}
		}
	}
	if x.Op == OpB2V {
		return b.B2V(x.Args[0], w)
	}
	return b.mk(&Node{Op: OpZExt, W: w, Args: []*Node{x}})
}

func (b *B) SExt(x *Node, w int) *Node {
	if w == x.W {
		return x
	}
	if w < x.W {
		return b.Extract(x, w-1, 0)
	}
	if c, ok := x.ConstVal(); ok {
		return b.Const(w, uint64(sx(c, x.W)))
	}
	if x.SLo >= 0 {
		return b.ZExt(x, w)
	}
	return b.mk(&Node{Op: OpSExt, W: w, Args: []*Node{x}})
}

// B2V converts a Bool to a bit-vector 1/0 of width w.
func (b *B) B2V(c *Node, w int) *Node {
	if c == b.True {
		return b.Const(w, 1)
	}
	if c == b.False {
		return b.Const(w, 0)
	}
	return b.mk(&Node{Op: OpB2V, W: w, Args: []*Node{c}})
}

// Ite builds if-then-else for BV or Bool arms.
func (b *B) Ite(c, x, y *Node) *Node {
	if c == b.True {
		return x
	}
	if c == b.False {
		return y
	}
	if x == y {
		return x
	}
	if x.W != y.W {
		panic("term: ite arm width mismatch")
	}
	if x.W == 0 {
		return b.bite(c, x, y)
	}
	// ite(c, 1, 0)
	if cx, ok := x.ConstVal(); ok {
		if cy, ok := y.ConstVal(); ok {
			if cx == 1 && cy == 0 {
				return b.B2V(c, x.W)
			}
			if cx == 0 && cy == 1 {
				return b.B2V(b.BNot(c), x.W)
			}
		}
	}
	// ite(c, ite(c, a, _), y) etc.
	if x.Op == OpIte && x.Args[0] == c {
		x = x.Args[1]
	}
	if y.Op == OpIte && y.Args[0] == c {
		y = y.Args[2]
	}
	if x == y {
		return x
	}
	// ite(c, a, ite(d, a, e)) = ite(c||d, a, e)
	if y.Op == OpIte && y.Args[1] == x {
		return b.Ite(b.BOr(c, y.Args[0]), x, y.Args[2])
	}
	if c.Op == OpBXor && c.K == 1 && len(c.Args) == 1 { // negated condition
		return b.mk(&Node{Op: OpIte, W: x.W, Args: []*Node{c.Args[0], y, x}})
	}
	return b.mk(&Node{Op: OpIte, W: x.W, Args: []*Node{c, x, y}})
}

// ------------------------------------------------------------------- Booleans

// xorParts decomposes a Bool into (const, atoms) of its XOR normal form.
func (b *B) xorParts(x *Node) (uint64, []*Node) {
	switch {
	case x == b.True:
		return 1, nil
	case x == b.False:
		return 0, nil
	case x.Op == OpBXor:
		return x.K, x.Args
	}
	return 0, []*Node{x}
}

func (b *B) mkXor(k uint64, atoms []*Node) *Node {
	if len(atoms) == 0 {
		return b.Const(0, k)
	}
	if len(atoms) == 1 && k == 0 {
		return atoms[0]
	}
	return b.mk(&Node{Op: OpBXor, W: 0, K: k, Args: atoms})
}

func (b *B) BXor(x, y *Node) *Node {
	kx, ax := b.xorParts(x)
	ky, ay := b.xorParts(y)
	// symmetric difference of sorted lists
	out := make([]*Node, 0, len(ax)+len(ay))
	i, j := 0, 0
	for i < len(ax) && j < len(ay) {
		switch {
		case ax[i].ID == ay[j].ID:
			i++
			j++
		case ax[i].ID < ay[j].ID:
			out = append(out, ax[i])
			i++
		default:
			out = append(out, ay[j])
			j++
		}
	}
	out = append(out, ax[i:]...)
	out = append(out, ay[j:]...)
	return b.mkXor(kx^ky, out)
}

func (b *B) BNot(x *Node) *Node {
	// comparisons flip to their duals so that intervals keep deciding them
	switch x.Op {
	case OpUlt:
		return b.Ule(x.Args[1], x.Args[0])
	case OpUle:
		return b.Ult(x.Args[1], x.Args[0])
	case OpSlt:
		return b.Sle(x.Args[1], x.Args[0])
	case OpSle:
		return b.Slt(x.Args[1], x.Args[0])
	}
	return b.BXor(x, b.True)
}

func isNegOf(b *B, x, y *Node) bool {
	kx, ax := b.xorParts(x)
	ky, ay := b.xorParts(y)
	if kx == ky || len(ax) != len(ay) {
		return false
	}
	for i := range ax {
		if ax[i] != ay[i] {
			return false
		}
	}
	return true
}

func (b *B) nary(op Op, xs []*Node) *Node {
	unit, zero := b.True, b.False
	if op == OpBOr {
		unit, zero = b.False, b.True
	}
	var flat []*Node
	for _, x := range xs {
		if x == zero {
			return zero
		}
		if x == unit {
			continue
		}
		if x.Op == op {
			flat = append(flat, x.Args...)
		} else {
			flat = append(flat, x)
		}
	}
	sort.Slice(flat, func(i, j int) bool { return flat[i].ID < flat[j].ID })
	out := flat[:0]
	for i, x := range flat {
		if i > 0 && flat[i-1] == x {
			continue
		}
		out = append(out, x)
	}
	// x and not x
	if len(out) <= 64 {
		for i := 0; i < len(out); i++ {
			for j := i + 1; j < len(out); j++ {
				if isNegOf(b, out[i], out[j]) {
					return zero
				}
			}
		}
	}
	if len(out) == 0 {
		return unit
	}
	if len(out) == 1 {
		return out[0]
	}
	return b.mk(&Node{Op: op, W: 0, Args: append([]*Node(nil), out...)})
}

func (b *B) BAnd(xs ...*Node) *Node { return b.nary(OpBAnd, xs) }
func (b *B) BOr(xs ...*Node) *Node  { return b.nary(OpBOr, xs) }

func (b *B) bite(c, x, y *Node) *Node {
	if x == b.True && y == b.False {
		return c
	}
	if x == b.False && y == b.True {
		return b.BNot(c)
	}
	if isNegOf(b, x, y) { // ite(c, ¬y, y) = c xor y
		return b.BXor(c, y)
	}
	if x == b.True {
		return b.BOr(c, y)
	}
	if x == b.False {
		return b.BAnd(b.BNot(c), y)
	}
	if y == b.True {
		return b.BOr(b.BNot(c), x)
	}
	if y == b.False {
		return b.BAnd(c, x)
	}
	if x.Op == OpIte && x.Args[0] == c {
		x = x.Args[1]
	}
	if y.Op == OpIte && y.Args[0] == c {
		y = y.Args[2]
	}
	if x == y {
		return x
	}
	if c.Op == OpBXor && c.K == 1 && len(c.Args) == 1 {
		return b.mk(&Node{Op: OpIte, W: 0, Args: []*Node{c.Args[0], y, x}})
	}
	return b.mk(&Node{Op: OpIte, W: 0, Args: []*Node{c, x, y}})
}

func (b *B) Implies(x, y *Node) *Node { return b.BOr(b.BNot(x), y) }

// ---------------------------------------------------------------- comparisons

func sliceable(n *Node) bool {
	switch n.Op {
	case OpConst, OpVar, OpAnd, OpOr, OpXor, OpNot, OpZExt, OpSExt, OpExtract, OpConcat, OpIte, OpB2V:
		return true
	case OpShl, OpLShr, OpAShr:
		return n.Args[1].IsConst()
	}
	return false
}

func (b *B) Eq(x, y *Node) *Node {
	if x == y {
		return b.True
	}
	if x.W != y.W {
		panic(fmt.Sprintf("term: eq width mismatch %d vs %d", x.W, y.W))
	}
	if x.W == 0 {
		return b.BNot(b.BXor(x, y))
	}
	if cx, ok := x.ConstVal(); ok {
		if cy, ok := y.ConstVal(); ok {
			return b.Bool(cx == cy)
		}
		x, y = y, x
	}
	// disjoint intervals
	if x.UHi < y.ULo || y.UHi < x.ULo || x.SHi < y.SLo || y.SHi < x.SLo {
		return b.False
	}
	if cy, ok := y.ConstVal(); ok {
		if cy&x.KZ != 0 {
			return b.False
		}
		switch x.Op {
		case OpB2V:
			if cy == 1 {
				return x.Args[0]
			}
			if cy == 0 {
				return b.BNot(x.Args[0])
			}
			return b.False
		case OpIte:
			// push equality with a constant into ite arms when an arm is constant
			_, c1 := x.Args[1].ConstVal()
			_, c2 := x.Args[2].ConstVal()
			if c1 || c2 {
				return b.bite(x.Args[0], b.Eq(x.Args[1], y), b.Eq(x.Args[2], y))
			}
		case OpZExt:
			if cy > mask(x.Args[0].W) {
				return b.False
			}
			return b.Eq(x.Args[0], b.Const(x.Args[0].W, cy))
		case OpAdd:
			if c1, ok := x.Args[1].ConstVal(); ok {
				return b.Eq(x.Args[0], b.Const(x.W, cy-c1))
			}
		case OpXor:
			if c1, ok := x.Args[1].ConstVal(); ok {
				return b.Eq(x.Args[0], b.Const(x.W, cy^c1))
			}
		}
		// a value with a single possibly-set bit
		pm := ^x.KZ & mask(x.W)
		if pm != 0 && pm&(pm-1) == 0 && !b.NoBits {
			bit := b.BitOf(x, bits.TrailingZeros64(pm))
			if cy == pm {
				return bit
			}
			if cy == 0 {
				return b.BNot(bit)
			}
			return b.False
		}
	}
	// bit-level comparison of bit-structured terms
	if !b.NoBits && sliceable(x) && sliceable(y) && !(x.Op == OpVar && y.IsConst()) && !(x.Op == OpVar && y.Op == OpVar) {
		allSame := true
		var conj []*Node
		for i := 0; i < x.W; i++ {
			bx, by := b.BitOf(x, i), b.BitOf(y, i)
			if bx == by {
				continue
			}
			allSame = false
			if bx.IsConst() && by.IsConst() {
				return b.False
			}
			if conj != nil || i < 64 {
				conj = append(conj, b.BNot(b.BXor(bx, by)))
			}
		}
		if allSame {
			return b.True
		}
		if len(conj) <= 2 {
			return b.BAnd(conj...)
		}
	}
	if x.ID > y.ID && !y.IsConst() {
		x, y = y, x
	}
	return b.mk(&Node{Op: OpEq, W: 0, Args: []*Node{x, y}})
}

func (b *B) Ne(x, y *Node) *Node { return b.BNot(b.Eq(x, y)) }

func (b *B) Ult(x, y *Node) *Node {
	if x == y {
		return b.False
	}
	if x.UHi < y.ULo {
		return b.True
	}
	if x.ULo >= y.UHi {
		return b.False
	}
	if cy, ok := y.ConstVal(); ok && cy == 1 {
		return b.Eq(x, b.Const(x.W, 0))
	}
	if x.Op == OpZExt && y.Op == OpZExt && x.Args[0].W == y.Args[0].W {
		return b.Ult(x.Args[0], y.Args[0])
	}
	if x.Op == OpZExt {
		if cy, ok := y.ConstVal(); ok && cy <= mask(x.Args[0].W) {
			return b.Ult(x.Args[0], b.Const(x.Args[0].W, cy))
		}
	}
	if y.Op == OpZExt {
		if cx, ok := x.ConstVal(); ok && cx <= mask(y.Args[0].W) {
			return b.Ult(b.Const(y.Args[0].W, cx), y.Args[0])
		}
	}
	return b.mk(&Node{Op: OpUlt, W: 0, Args: []*Node{x, y}})
}

func (b *B) Ule(x, y *Node) *Node {
	if x == y {
		return b.True
	}
	if x.UHi <= y.ULo {
		return b.True
	}
	if x.ULo > y.UHi {
		return b.False
	}
	if x.Op == OpZExt && y.Op == OpZExt && x.Args[0].W == y.Args[0].W {
		return b.Ule(x.Args[0], y.Args[0])
	}
	if x.Op == OpZExt {
		if cy, ok := y.ConstVal(); ok && cy <= mask(x.Args[0].W) {
			return b.Ule(x.Args[0], b.Const(x.Args[0].W, cy))
		}
	}
	if y.Op == OpZExt {
		if cx, ok := x.ConstVal(); ok && cx <= mask(y.Args[0].W) {
			return b.Ule(b.Const(y.Args[0].W, cx), y.Args[0])
		}
	}
	return b.mk(&Node{Op: OpUle, W: 0, Args: []*Node{x, y}})
}

func (b *B) Slt(x, y *Node) *Node {
	if x == y {
		return b.False
	}
	if x.SHi < y.SLo {
		return b.True
	}
	if x.SLo >= y.SHi {
		return b.False
	}
	if x.SLo >= 0 && y.SLo >= 0 {
		return b.Ult(x, y)
	}
	return b.mk(&Node{Op: OpSlt, W: 0, Args: []*Node{x, y}})
}

func (b *B) Sle(x, y *Node) *Node {
	if x == y {
		return b.True
	}
	if x.SHi <= y.SLo {
		return b.True
	}
	if x.SLo > y.SHi {
		return b.False
	}
	if x.SLo >= 0 && y.SLo >= 0 {
		return b.Ule(x, y)
	}
	return b.mk(&Node{Op: OpSle, W: 0, Args: []*Node{x, y}})
}

// -------------------------------------------------------------------- bit slicing

// BitOf returns the Boolean term of bit i of BV node n.
func (b *B) BitOf(n *Node, i int) *Node {
	if i >= n.W {
		panic("term: BitOf index out of range")
	}
	if n.Op == OpConst {
		return b.Bool((n.K>>uint(i))&1 == 1)
	}
	if (n.KZ>>uint(i))&1 == 1 {
		return b.False
	}
	mk := [2]int{n.ID, i}
	if r, ok := b.bitMemo[mk]; ok {
		return r
	}
	var r *Node
	switch n.Op {
	case OpAnd:
		r = b.BAnd(b.BitOf(n.Args[0], i), b.BitOf(n.Args[1], i))
	case OpOr:
		r = b.BOr(b.BitOf(n.Args[0], i), b.BitOf(n.Args[1], i))
	case OpXor:
		r = b.BXor(b.BitOf(n.Args[0], i), b.BitOf(n.Args[1], i))
	case OpNot:
		r = b.BNot(b.BitOf(n.Args[0], i))
	case OpZExt:
		r = b.BitOf(n.Args[0], i) // i < inner width since KZ covers the rest
	case OpSExt:
		j := i
		if j >= n.Args[0].W {
			j = n.Args[0].W - 1
		}
		r = b.BitOf(n.Args[0], j)
	case OpExtract:
		r = b.BitOf(n.Args[0], i+n.K2)
	case OpConcat:
		if i < n.Args[1].W {
			r = b.BitOf(n.Args[1], i)
		} else {
			r = b.BitOf(n.Args[0], i-n.Args[1].W)
		}
	case OpIte:
		r = b.bite(n.Args[0], b.BitOf(n.Args[1], i), b.BitOf(n.Args[2], i))
	case OpB2V:
		r = n.Args[0] // i == 0 (others are known zero)
	case OpShl, OpLShr, OpAShr:
		if c, ok := n.Args[1].ConstVal(); ok {
			s := int(c)
			switch n.Op {
			case OpShl:
				if i < s {
					r = b.False
				} else {
					r = b.BitOf(n.Args[0], i-s)
				}
			case OpLShr:
				if i+s >= n.W {
					r = b.False
				} else {
					r = b.BitOf(n.Args[0], i+s)
				}
			default:
				j := i + s
				if j >= n.W {
					j = n.W - 1
				}
				r = b.BitOf(n.Args[0], j)
			}
		}
	}
	if r == nil {
		r = b.mk(&Node{Op: OpBit, W: 0, Args: []*Node{n}, K: uint64(i)})
	}
	b.bitMemo[mk] = r
	return r
}

// Mux builds a balanced selection tree: result = tab[idx - base] for idx in
// [base, base+len(tab)); values outside select an arbitrary entry (callers
// guard with a bounds obligation).
func (b *B) Mux(idx *Node, base uint64, tab []*Node) *Node {
	if len(tab) == 1 {
		return tab[0]
	}
	allSame := true
	for _, t := range tab[1:] {
		if t != tab[0] {
			allSame = false
			break
		}
	}
	if allSame {
		return tab[0]
	}
	mid := len(tab) / 2
	lo := b.Mux(idx, base, tab[:mid])
	hi := b.Mux(idx, base+uint64(mid), tab[mid:])
	return b.Ite(b.Ult(idx, b.Const(idx.W, base+uint64(mid))), lo, hi)
}
