// Package replay runs harness functions natively (real compiler, real code)
// on concrete inputs taken from solver models.
package replay

import (
	"bytes"
	"context"
	"encoding/json"
	"fmt"
	"os"
	osexec "os/exec"
	"path/filepath"
	"regexp"
	"sort"
	"strings"
	"time"

	"vpengine/exec"
)

// Case is one native execution of a harness.
type Case struct {
	ID      string                       `json:"id"`
	Pkg     string                       `json:"pkg"`
	Harness string                       `json:"harness"`
	Config  map[string]int               `json:"config"`
	Inputs  map[string]uint64            `json:"inputs"`
	UF      map[string]map[string]uint64 `json:"uf,omitempty"`
	// informational
	Property string `json:"property,omitempty"`
	Label    string `json:"label,omitempty"`
	Kind     string `json:"kind,omitempty"`
	Pos      string `json:"pos,omitempty"`
}

// Outcome of a native run.
type Outcome struct {
	Case   *Case
	Status string // ok, assert-failed, panic, hang, leak, assume-violated, error
	Detail string
}

func (o Outcome) Fails() bool {
	switch o.Status {
	case "assert-failed", "panic", "hang", "leak":
		return true
	}
	return false
}

// Runner owns a scratch copy of the repository with native harness bodies.
type Runner struct {
	Scratch string
	repo    string
	harness string
	ready   bool
}

func NewRunner(repo, harnessDir string) *Runner {
	return &Runner{repo: repo, harness: harnessDir}
}

func (r *Runner) Close() {
	if r.Scratch != "" {
		os.RemoveAll(r.Scratch)
	}
}

var harnessRe = regexp.MustCompile(`(?m)^func (VP_\w+)\(\)`)

func (r *Runner) prepare() error {
	if r.ready {
		return nil
	}
	dir, err := os.MkdirTemp("", "vp-native-")
	if err != nil {
		return err
	}
	r.Scratch = dir
	if err := exec.CopyTree(r.repo, dir); err != nil {
		return err
	}
	pkgs, err := exec.InstallHarness(r.harness, dir, true)
	if err != nil {
		return err
	}
	for _, rel := range pkgs {
		pdir := filepath.Join(dir, rel)
		ents, _ := os.ReadDir(pdir)
		var names []string
		pkgName := ""
		for _, e := range ents {
			if !strings.HasPrefix(e.Name(), "zz_vp_") || !strings.HasSuffix(e.Name(), ".go") {
				continue
			}
			src, _ := os.ReadFile(filepath.Join(pdir, e.Name()))
			for _, m := range harnessRe.FindAllStringSubmatch(string(src), -1) {
				names = append(names, m[1])
			}
			if pkgName == "" {
				for _, line := range strings.Split(string(src), "\n") {
					if strings.HasPrefix(line, "package ") {
						pkgName = strings.Fields(line)[1]
						break
					}
				}
			}
		}
		sort.Strings(names)
		var sb strings.Builder
		fmt.Fprintf(&sb, "package %s\n\nimport (\n\t\"encoding/json\"\n\t\"fmt\"\n\t\"os\"\n\t\"runtime\"\n\t\"testing\"\n\t\"time\"\n)\n\n", pkgName)
		sb.WriteString("var vpHarnesses = map[string]func(){\n")
		for _, n := range names {
			fmt.Fprintf(&sb, "\t%q: %s,\n", n, n)
		}
		sb.WriteString("}\n\n")
		sb.WriteString(`func TestVPReplay(t *testing.T) {
	raw, err := os.ReadFile(os.Getenv("VP_REPLAY_CASES"))
	if err != nil {
		t.Fatal(err)
	}
	var cases []json.RawMessage
	if err := json.Unmarshal(raw, &cases); err != nil {
		t.Fatal(err)
	}
	dir := t.TempDir()
	for i, rc := range cases {
		var c struct {
			ID      string ` + "`json:\"id\"`" + `
			Harness string ` + "`json:\"harness\"`" + `
		}
		json.Unmarshal(rc, &c)
		caseFile := fmt.Sprintf("%s/case%d.json", dir, i)
		failFile := fmt.Sprintf("%s/fail%d.txt", dir, i)
		os.WriteFile(caseFile, rc, 0o644)
		os.Setenv("VP_REPLAY_JSON", caseFile)
		os.Setenv("VP_REPLAY_FAIL", failFile)
		os.Setenv("VP_REPLAY_SEQ", fmt.Sprint(i+1))
		h := vpHarnesses[c.Harness]
		if h == nil {
			fmt.Printf("VP-REPLAY: %s error unknown harness %s\n", c.ID, c.Harness)
			continue
		}
		before := runtime.NumGoroutine()
		fmt.Printf("VP-REPLAY-START: %s\n", c.ID)
		status := func() (s string) {
			defer func() {
				if r := recover(); r != nil {
					if r == "vp-assume-violated" {
						s = "assume-violated"
						return
					}
					s = fmt.Sprintf("panic %v", r)
				}
			}()
			h()
			if fails, err := os.ReadFile(failFile); err == nil && len(fails) > 0 {
				return fmt.Sprintf("assert-failed %q", string(fails))
			}
			return "ok"
		}()
		if status == "ok" {
			leaked := true
			for k := 0; k < 40; k++ {
				if runtime.NumGoroutine() <= before {
					leaked = false
					break
				}
				time.Sleep(5 * time.Millisecond)
			}
			if leaked {
				status = fmt.Sprintf("leak %d goroutines still alive", runtime.NumGoroutine()-before)
			}
		}
		fmt.Printf("VP-REPLAY: %s %s\n", c.ID, status)
	}
}
`)
		if err := os.WriteFile(filepath.Join(pdir, "zz_vp_replay_test.go"), []byte(sb.String()), 0o644); err != nil {
			return err
		}
	}
	r.ready = true
	return nil
}

// Run executes the cases natively, grouped by package.
func (r *Runner) Run(cases []*Case, perPkgTimeout time.Duration) ([]Outcome, error) {
	if len(cases) == 0 {
		return nil, nil
	}
	if err := r.prepare(); err != nil {
		return nil, err
	}
	byPkg := map[string][]*Case{}
	var order []string
	for _, c := range cases {
		if _, ok := byPkg[c.Pkg]; !ok {
			order = append(order, c.Pkg)
		}
		byPkg[c.Pkg] = append(byPkg[c.Pkg], c)
	}
	var out []Outcome
	for _, pkg := range order {
		pending := byPkg[pkg]
		for len(pending) > 0 {
			res, err := r.runBatch(pkg, pending, perPkgTimeout)
			if err != nil {
				return out, err
			}
			out = append(out, res...)
			pending = pending[len(res):]
		}
	}
	return out, nil
}

// runBatch runs cases of one package in one test process; if one case hangs
// the batch is cut there and the caller continues with the rest.
func (r *Runner) runBatch(pkg string, cases []*Case, timeout time.Duration) ([]Outcome, error) {
	type jc struct {
		ID      string                       `json:"id"`
		Harness string                       `json:"harness"`
		Config  map[string]int               `json:"config"`
		Inputs  map[string]uint64            `json:"inputs"`
		UF      map[string]map[string]uint64 `json:"uf"`
	}
	var js []jc
	for i, c := range cases {
		js = append(js, jc{fmt.Sprintf("case%d", i), c.Harness, c.Config, c.Inputs, c.UF})
	}
	f, err := os.CreateTemp("", "vp-cases-*.json")
	if err != nil {
		return nil, err
	}
	defer os.Remove(f.Name())
	json.NewEncoder(f).Encode(js)
	f.Close()
	ctx, cancel := context.WithTimeout(context.Background(), timeout)
	defer cancel()
	target := "./" + pkg
	if pkg == "." || pkg == "" {
		target = "."
	}
	cmd := osexec.CommandContext(ctx, "go", "test", "-vet=off", "-count=1", "-timeout", "0", "-run", "^TestVPReplay$", "-v", target)
	cmd.Dir = r.Scratch
	cmd.Env = append(os.Environ(), "GOFLAGS=-mod=mod", "GOPROXY=off", "GOSUMDB=off", "GOTOOLCHAIN=local", "VP_REPLAY_CASES="+f.Name())
	var buf bytes.Buffer
	cmd.Stdout = &buf
	cmd.Stderr = &buf
	runErr := cmd.Run()
	text := buf.String()
	var out []Outcome
	started := -1
	for _, line := range strings.Split(text, "\n") {
		line = strings.TrimSpace(line)
		if strings.HasPrefix(line, "VP-REPLAY-START: case") {
			fmt.Sscanf(strings.TrimPrefix(line, "VP-REPLAY-START: case"), "%d", &started)
		}
		if strings.HasPrefix(line, "VP-REPLAY: case") {
			rest := strings.TrimPrefix(line, "VP-REPLAY: case")
			var idx int
			var status string
			sp := strings.IndexByte(rest, ' ')
			if sp < 0 {
				continue
			}
			fmt.Sscanf(rest[:sp], "%d", &idx)
			status = rest[sp+1:]
			o := Outcome{Case: cases[idx]}
			fields := strings.SplitN(status, " ", 2)
			o.Status = fields[0]
			if len(fields) > 1 {
				o.Detail = fields[1]
			}
			out = append(out, o)
		}
	}
	if len(out) < len(cases) {
		// the process died or hung in case number len(out)
		if started == len(out) {
			st := "hang"
			detail := fmt.Sprintf("no result within %s", timeout)
			if ctx.Err() == nil {
				st = "panic"
				detail = "test process died: " + lastLines(text, 12)
			}
			out = append(out, Outcome{Case: cases[len(out)], Status: st, Detail: detail})
		} else if len(out) == 0 {
			return nil, fmt.Errorf("native replay of package %s did not run: %v\n%s", pkg, runErr, lastLines(text, 30))
		}
	}
	return out, nil
}

func lastLines(s string, n int) string {
	ls := strings.Split(strings.TrimSpace(s), "\n")
	if len(ls) > n {
		ls = ls[len(ls)-n:]
	}
	return strings.Join(ls, " | ")
}
