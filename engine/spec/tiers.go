package spec

import "strings"

// Thorough-tier bounds are registered only where they were run clean on the unchanged tree. The
// deeper configurations that were written down first but turned out to exceed the time-outs
// (measured in a sweep over every obligation family, 20 minutes per family) are listed here: for
// these families the thorough tier runs the quick configurations, and single instances that came
// back inconclusive are dropped. The evidence states the configurations actually run.
var thoroughAsQuick = []string{
	"C39", "C93", // full-ASCII n = 2 is 128^2 paths: > 15 min per instance
	"C128-sym", // n = 3 with check character: VC time-outs
	"PURE-",    // n + 1 symbolic bytes: > 20 min for the family
	"GF-mul-",  // every second operand of GF(1024) / GF(4096): > 10 min for the family
	"GF-div",   // likewise
	"RS-",      // RS-enc with k <= 3 x e <= 6 and e up to 45, RS-cache up to degree 70: > 25 min for the family
	"QR-cap",   // all 40 versions (7089 symbolic digits at 40-L): > 10 min for the family
	"QR-B",     // all 160 rows at once: the process was killed for memory after 7 min
	"QR-C",     // all 40 versions x 4 levels: fine alone (5 min), but together with the other QR families the check was killed for memory
	"QR-E",     // n up to 9: VC time-outs (105 inconclusive results)
	"DM-A",     // n up to 6 symbolic bytes: > 10 min for the family
	"DM-E",     // capacities up to 1558 codewords: > 10 min for the family
	"PDF-D",    // up to 1850 letters: > 10 min for the family
	"AZ-A",     // two symbolic bytes from the initial state: > 10 min
}

var thoroughDrop = map[string]bool{
	"C128-idx[k=4,prefix=3]":          true, // VC time-out
	"AZ-F[class=1,n=4,pct=10,req=23]": true, // 23-layer symbol with real field arithmetic in the oracle: step limit
	"BL-add[L=127,k=1]":               true, // symbolic index over 128 words: bounds VC time-out
	"BL-add[L=127,k=2]":               true,
	"BL-add[L=127,k=3]":               true,
	"BL-add[L=128,k=1]":               true,
	"BL-add[L=128,k=2]":               true,
	"BL-add[L=128,k=3]":               true,
	"BL-add[L=129,k=1]":               true,
	"BL-add[L=129,k=2]":               true,
	"BL-add[L=129,k=3]":               true,
}

// EffectiveTier is the tier whose configurations an obligation family runs in the given tier.
func EffectiveTier(id, tier string) string {
	if tier != "thorough" {
		return tier
	}
	for _, p := range thoroughAsQuick {
		if strings.HasPrefix(id, p) {
			return "quick"
		}
	}
	return tier
}
