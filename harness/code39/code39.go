package code39

import (
	"image"
	"image/color"

	"github.com/boombuler/barcode"
)

// C07 (Code 39) with C10 / C11 / C14 side conditions.
//
// Reference: the 43 data characters with values 0..42 in the order
// 0-9 A-Z - . space $ / + % ; bar/space patterns by the 3-of-9 construction:
// the five bars of character i carry the 2-of-5 code of (i mod 10) (column
// order 1..9,0), the decade selects which of the four spaces is wide; the four
// special characters $ / + % have narrow bars and three wide spaces. wide = 2 modules.

const vpAlphabet = "0123456789ABCDEFGHIJKLMNOPQRSTUVWXYZ-. $/+%"

var vpBars25 = [10]int{0x06, 0x11, 0x09, 0x18, 0x05, 0x14, 0x0C, 0x03, 0x12, 0x0A} // digit 0..9 (0 coded as 4+7)

type vpCol struct{ id int }

func (c vpCol) RGBA() (r, g, b, a uint32) { return uint32(c.id), 0, 0, 0xffff }

// vpPattern39 returns the 12-module pattern of character value v (0..42) or of '*' (v = 43).
func vpPattern39(v int) int {
	bars, spaces := 0, 0 // 5 bar widths, 4 space widths (bit = wide)
	switch {
	case v <= 38 || v == 43:
		col := v % 10 // position in the decade: values 0..9 -> characters "0123456789": '0' is the tenth of its row
		decade := v / 10
		if v == 43 {
			col, decade = 9, 3 // '*' sits after space in the fourth decade ( - . space * )
		}
		// rows are 1234567890 / ABCDEFGHIJ / KLMNOPQRST / UVWXYZ-.␠* : value v -> row index and column
		var rowPos int
		if v <= 9 {
			rowPos = (v + 9) % 10 // '1' first ... '0' last
			decade = 0
		} else if v != 43 {
			rowPos = (v - 10) % 10
			decade = 1 + (v-10)/10
		} else {
			rowPos = 9
		}
		_ = col
		bars = vpBars25[(rowPos+1)%10]
		// wide space position per decade: 1st decade -> second space, 2nd -> third, 3rd -> fourth, 4th -> first
		spaces = [4]int{0x4, 0x2, 0x1, 0x8}[decade]
	default: // $ / + % : values 39..42
		spaces = [4]int{0xE, 0xD, 0xB, 0x7}[v-39]
	}
	m := 0
	for e := 0; e < 9; e++ {
		var wide, bar bool
		if e%2 == 0 {
			bar = true
			wide = (bars>>uint(4-e/2))&1 == 1
		} else {
			wide = (spaces>>uint(3-e/2))&1 == 1
		}
		n := 1
		if wide {
			n = 2
		}
		for k := 0; k < n; k++ {
			m <<= 1
			if bar {
				m |= 1
			}
		}
	}
	return m
}

// full-ASCII spelling per the Code 39 extension: returns the one or two basic characters of c (0 = none)
func vpExt39(c int) (int, int) {
	switch {
	case c == 0:
		return '%', 'U'
	case c >= 1 && c <= 26:
		return '$', 'A' + c - 1
	case c >= 27 && c <= 31:
		return '%', 'A' + c - 27
	case c == ' ' || c == '-' || c == '.' || (c >= '0' && c <= '9') || (c >= 'A' && c <= 'Z'):
		return c, 0
	case c >= 33 && c <= 44:
		return '/', 'A' + c - 33
	case c == 47:
		return '/', 'O'
	case c == 58:
		return '/', 'Z'
	case c >= 59 && c <= 63:
		return '%', 'F' + c - 59
	case c == 64:
		return '%', 'V'
	case c >= 91 && c <= 95:
		return '%', 'K' + c - 91
	case c == 96:
		return '%', 'W'
	case c >= 97 && c <= 122:
		return '+', 'A' + c - 97
	case c >= 123 && c <= 127:
		return '%', 'P' + c - 123
	}
	return c, 0
}

func vpValue39(c byte) int {
	v := -1
	for k := 0; k < len(vpAlphabet); k++ {
		if c == vpAlphabet[k] {
			v = k
		}
	}
	return v
}

func VP_C39() {
	n := vpConfig("n")
	withCS := vpConfig("cs") == 1
	full := vpConfig("full") == 1
	content := vpString("c", n)
	scheme := barcode.ColorScheme16
	var bc barcode.BarcodeIntCS
	var err error
	if vpConfig("color") == 1 {
		scheme = barcode.ColorScheme{Model: color.GrayModel, Foreground: vpCol{1}, Background: vpCol{2}}
		bc, err = EncodeWithColor(content, withCS, full, scheme)
	} else {
		bc, err = Encode(content, withCS, full)
	}
	vpAssert((bc == nil) != (err == nil), "exactly one of barcode and error is nil")
	// representable?
	ok := true
	for i := 0; i < n; i++ {
		c := content[i]
		if full {
			ok = ok && c < 128
		} else {
			ok = ok && vpValue39(c) >= 0
		}
	}
	if !ok {
		vpAssert(err != nil, "characters outside the mode's alphabet are rejected")
		vpCover("rejected", true)
		return
	}
	vpAssert(err == nil && bc != nil, "text over the mode's alphabet is accepted")
	if bc == nil {
		return
	}
	vpCover("accepted", true)
	// basic-alphabet spelling
	basic := make([]int, 0, 2*n)
	for i := 0; i < n; i++ {
		if full {
			a, b := vpExt39(int(content[i]))
			basic = append(basic, a)
			if vpConcretize(b) != 0 {
				basic = append(basic, b)
			}
		} else {
			basic = append(basic, int(content[i]))
		}
	}
	got := bc.Content()
	vpAssert(len(got) == len(basic), "Content is the basic-alphabet spelling of the text")
	sum := 0
	for i := 0; i < len(basic); i++ {
		if i < len(got) {
			vpAssert(int(got[i]) == basic[i], "Content spells the text with the basic alphabet")
		}
		sum += vpValue39(byte(basic[i]))
	}
	check := sum % 43
	vpAssert(bc.CheckSum() == check, "CheckSum() is the modulo-43 check value")
	md := bc.Metadata()
	vpAssert(md.CodeKind == "Code 39" && md.Dimensions == 1, "metadata says Code 39, 1D")
	vpAssert(bc.ColorModel() == scheme.Model, "ColorModel is the scheme's model")
	if cs, isC := bc.(barcode.BarcodeColor); isC {
		g := cs.ColorScheme()
		vpAssert(g.Model == scheme.Model && g.Foreground == scheme.Foreground && g.Background == scheme.Background, "ColorScheme() reports the scheme in force")
	} else {
		vpAssert(false, "Code 39 barcodes expose their colour scheme")
	}
	// symbol: * data [check] * with one narrow space between characters
	var pat [44]int
	for v := 0; v < 44; v++ {
		pat[v] = vpPattern39(v)
	}
	syms := len(basic) + 2
	if withCS {
		syms++
	}
	width := syms*12 + (syms - 1)
	vpAssert(bc.Bounds() == image.Rect(0, 0, width, 1), "bounds are (0,0)-(13*characters-1, 1)")
	if bc.Bounds().Dx() != width {
		return
	}
	for s := 0; s < syms; s++ {
		var m int
		switch {
		case s == 0 || s == syms-1:
			m = pat[43]
		case withCS && s == syms-2:
			m = pat[check]
		default:
			m = pat[vpValue39(byte(basic[s-1]))]
		}
		for k := 0; k < 12; k++ {
			bar := (m>>uint(11-k))&1 == 1
			px := bc.At(s*13+k, 0)
			vpAssert((px == scheme.Foreground) == bar, "module is a bar exactly where the character's pattern has one")
			vpAssert((px == scheme.Background) == !bar, "pixels are exactly foreground or background")
		}
		if s < syms-1 {
			vpAssert(bc.At(s*13+12, 0) == scheme.Background, "narrow space between characters")
		}
	}
}

// C15 / C16: purity (deterministic, history-free, no package-level writes)
func VP_PURE() {
	n := vpConfig("n")
	content := vpString("c", n)
	for i := 0; i < n; i++ {
		vpAssume(content[i] >= 'A' && content[i] <= 'Z')
	}
	vpTrackGlobals()
	a, errA := Encode(content, true, false)
	_, _ = Encode("OTHER-39", true, true)
	b, errB := Encode(content, true, false)
	vpAssert((errA == nil) == (errB == nil), "the same call succeeds or fails the same way every time ")
	if errA == nil && errB == nil {
		vpAssert(a.Bounds() == b.Bounds() && a.Content() == b.Content(), "the same call returns the same barcode whatever was encoded before")
		if a.Bounds() == b.Bounds() {
			for x := 0; x < a.Bounds().Dx(); x++ {
				vpAssert(a.At(x, 0) == b.At(x, 0), "the same call returns the same pixels whatever was encoded before")
			}
		}
	}
	vpAssert(vpGlobalWrites() == 0, "no package-level state is written")
	vpCover("reached", true)
}

// C15: the check character search ranges over a map; its result must not depend on the iteration order
func VP_C39_maporder() {
	n := vpConfig("n")
	content := vpString("c", n)
	for i := 0; i < n; i++ {
		vpAssume(vpValue39(content[i]) >= 0)
	}
	vpMapOrder(false)
	a := getChecksum(content)
	for r := 0; r < vpNativeRepeat(300); r++ {
		vpMapOrder(true)
		b := getChecksum(content)
		vpMapOrder(false)
		vpAssert(a == b, "the check character does not depend on the order in which the table is iterated")
	}
	vpAssert(len(a) == 1 && vpValue39(a[0]) >= 0, "the check character is one of the 43 data characters")
	vpCover("reached", true)
}
