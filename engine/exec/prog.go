package exec

import (
	"fmt"
	"go/types"
	"io"
	"os"
	"path/filepath"
	"sort"
	"strings"
	"sync"

	"golang.org/x/tools/go/packages"
	"golang.org/x/tools/go/ssa"
	"golang.org/x/tools/go/ssa/ssautil"
)

// Program is the SSA form of a scratch copy of the repository plus harnesses.
type Program struct {
	Scratch  string
	ModPath  string
	Prog     *ssa.Program
	Pkgs     map[string]*ssa.Package // by import path
	sizeMemo map[types.Type]int
	fnInfo   map[*ssa.Function]*FnInfo
	mu       sync.Mutex
	RepoPkgs []string // import paths of repo packages (init order)
	LoadSecs float64
	Dropped  map[string]string // harness files removed because they do not compile against this tree -> first error
}

type FnInfo struct {
	Vals    []ssa.Value // register index -> value
	NumRegs int
	Reg     map[ssa.Value]int
	IPDom   []int // per block index: immediate post-dominator block index or -1
}

// CopyTree copies the working tree of repo (excluding .git) into dst.
func CopyTree(repo, dst string) error {
	return filepath.Walk(repo, func(p string, info os.FileInfo, err error) error {
		if err != nil {
			return err
		}
		rel, _ := filepath.Rel(repo, p)
		if rel == ".git" {
			if info.IsDir() {
				return filepath.SkipDir
			}
			return nil // a worktree's .git is a file
		}
		target := filepath.Join(dst, rel)
		if info.IsDir() {
			return os.MkdirAll(target, 0o755)
		}
		if !info.Mode().IsRegular() {
			return nil
		}
		in, err := os.Open(p)
		if err != nil {
			return err
		}
		defer in.Close()
		out, err := os.Create(target)
		if err != nil {
			return err
		}
		defer out.Close()
		_, err = io.Copy(out, in)
		return err
	})
}

// InstallHarness copies harnessDir/<pkg>/*.go into scratch/<pkg>/ with the
// zz_vp_ prefix and writes the per-package intrinsic declarations. native
// selects the replay bodies instead of the body-less declarations.
func InstallHarness(harnessDir, scratch string, native bool) ([]string, error) {
	var pkgs []string
	ents, err := os.ReadDir(harnessDir)
	if err != nil {
		return nil, err
	}
	api, err := os.ReadFile(filepath.Join(harnessDir, "_api", "api.go.txt"))
	if err != nil {
		return nil, err
	}
	nat, err := os.ReadFile(filepath.Join(harnessDir, "_api", "native.go.txt"))
	if err != nil {
		return nil, err
	}
	for _, e := range ents {
		if !e.IsDir() || strings.HasPrefix(e.Name(), "_") {
			continue
		}
		rel := strings.ReplaceAll(e.Name(), "__", string(filepath.Separator))
		if rel == "root" {
			rel = "."
		}
		dstDir := filepath.Join(scratch, rel)
		if _, err := os.Stat(dstDir); err != nil {
			continue // package vanished from the tree
		}
		pkgName, err := packageName(dstDir)
		if err != nil {
			return nil, err
		}
		files, _ := os.ReadDir(filepath.Join(harnessDir, e.Name()))
		for _, f := range files {
			if !strings.HasSuffix(f.Name(), ".go") {
				continue
			}
			src, err := os.ReadFile(filepath.Join(harnessDir, e.Name(), f.Name()))
			if err != nil {
				return nil, err
			}
			if err := os.WriteFile(filepath.Join(dstDir, "zz_vp_"+f.Name()), src, 0o644); err != nil {
				return nil, err
			}
		}
		body := api
		if native {
			body = nat
		}
		text := strings.Replace(string(body), "package PKG", "package "+pkgName, 1)
		if err := os.WriteFile(filepath.Join(dstDir, "zz_vp_api.go"), []byte(text), 0o644); err != nil {
			return nil, err
		}
		pkgs = append(pkgs, rel)
	}
	return pkgs, nil
}

func packageName(dir string) (string, error) {
	ents, err := os.ReadDir(dir)
	if err != nil {
		return "", err
	}
	for _, e := range ents {
		if strings.HasSuffix(e.Name(), ".go") && !strings.HasSuffix(e.Name(), "_test.go") && !strings.HasPrefix(e.Name(), "zz_vp_") {
			src, err := os.ReadFile(filepath.Join(dir, e.Name()))
			if err != nil {
				return "", err
			}
			for _, line := range strings.Split(string(src), "\n") {
				line = strings.TrimSpace(line)
				if strings.HasPrefix(line, "package ") {
					return strings.Fields(line)[1], nil
				}
			}
		}
	}
	return "", fmt.Errorf("no package clause found in %s", dir)
}

// LoadErrors is returned by Load when packages do not type-check.
type LoadErrors struct{ Errs []string }

func (e *LoadErrors) Error() string { return "package load errors:\n" + strings.Join(e.Errs, "\n") }

// LoadTolerant is Load for a tree whose source may have been refactored: harness files
// (zz_vp_*.go) that no longer compile against it are removed one round at a time and recorded in
// Program.Dropped (relative path -> first error); obligations whose harness function lived in a
// dropped file are reported inconclusive by the driver, every other obligation still runs.
// Errors outside harness files are fatal as before.
func LoadTolerant(scratch string) (*Program, error) {
	dropped := map[string]string{}
	for round := 0; round < 8; round++ {
		p, err := Load(scratch)
		if err == nil {
			p.Dropped = dropped
			return p, nil
		}
		le, ok := err.(*LoadErrors)
		if !ok {
			return nil, err
		}
		bad := map[string]string{}
		for _, e := range le.Errs {
			file := e
			if i := strings.Index(e, ".go:"); i >= 0 {
				file = e[:i+3]
			} else {
				return nil, err
			}
			if !strings.HasPrefix(filepath.Base(file), "zz_vp_") || filepath.Base(file) == "zz_vp_api.go" {
				return nil, err // the tree itself (or the intrinsic declarations) does not compile
			}
			if _, seen := bad[file]; !seen {
				bad[file] = e
			}
		}
		if len(bad) == 0 {
			return nil, err
		}
		for f, e := range bad {
			rel, _ := filepath.Rel(scratch, f)
			dropped[rel] = strings.TrimPrefix(e, scratch+string(filepath.Separator))
			os.Remove(f)
		}
	}
	return nil, fmt.Errorf("harness files keep failing to compile after 8 rounds of removal")
}

// Load builds SSA for every package of the module rooted at scratch.
func Load(scratch string) (*Program, error) {
	cfg := &packages.Config{
		Mode:  packages.LoadAllSyntax | packages.NeedModule,
		Dir:   scratch,
		Env:   append(os.Environ(), "GOFLAGS=-mod=mod", "GOPROXY=off", "GOSUMDB=off", "GOTOOLCHAIN=local", "GOWORK=off"),
		Tests: false,
	}
	initial, err := packages.Load(cfg, "./...")
	if err != nil {
		return nil, err
	}
	var errs []string
	packages.Visit(initial, nil, func(p *packages.Package) {
		for _, e := range p.Errors {
			errs = append(errs, e.Error())
		}
	})
	if len(errs) > 0 {
		return nil, &LoadErrors{Errs: errs}
	}
	prog, _ := ssautil.AllPackages(initial, ssa.InstantiateGenerics)
	prog.Build()
	p := &Program{Scratch: scratch, Prog: prog, Pkgs: map[string]*ssa.Package{}, sizeMemo: map[types.Type]int{}, fnInfo: map[*ssa.Function]*FnInfo{}}
	for _, sp := range prog.AllPackages() {
		p.Pkgs[sp.Pkg.Path()] = sp
	}
	// repo packages in dependency order
	seen := map[string]bool{}
	var order []string
	var visit func(pk *packages.Package)
	visit = func(pk *packages.Package) {
		if seen[pk.PkgPath] {
			return
		}
		seen[pk.PkgPath] = true
		var imps []string
		for k := range pk.Imports {
			imps = append(imps, k)
		}
		sort.Strings(imps)
		for _, k := range imps {
			visit(pk.Imports[k])
		}
		order = append(order, pk.PkgPath)
	}
	sort.Slice(initial, func(i, j int) bool { return initial[i].PkgPath < initial[j].PkgPath })
	for _, pk := range initial {
		visit(pk)
	}
	if len(initial) > 0 && initial[0].Module != nil {
		p.ModPath = initial[0].Module.Path
	}
	for _, path := range order {
		if path == p.ModPath || strings.HasPrefix(path, p.ModPath+"/") {
			p.RepoPkgs = append(p.RepoPkgs, path)
		}
	}
	return p, nil
}

// Func finds a package-level function "pkgpath.Name" (pkgpath relative to the module: "qr", "." for root).
func (p *Program) Func(rel, name string) *ssa.Function {
	path := p.ModPath
	if rel != "." && rel != "" {
		path += "/" + rel
	}
	pk := p.Pkgs[path]
	if pk == nil {
		return nil
	}
	return pk.Func(name)
}

func (p *Program) info(fn *ssa.Function) *FnInfo {
	p.mu.Lock()
	defer p.mu.Unlock()
	if fi, ok := p.fnInfo[fn]; ok {
		return fi
	}
	fi := &FnInfo{Reg: map[ssa.Value]int{}}
	n := 0
	for _, pa := range fn.Params {
		fi.Reg[pa] = n
		n++
	}
	for _, fv := range fn.FreeVars {
		fi.Reg[fv] = n
		n++
	}
	for _, b := range fn.Blocks {
		for _, in := range b.Instrs {
			if v, ok := in.(ssa.Value); ok {
				fi.Reg[v] = n
				n++
			}
		}
	}
	fi.NumRegs = n
	fi.Vals = make([]ssa.Value, n)
	for v, i := range fi.Reg {
		fi.Vals[i] = v
	}
	fi.IPDom = ipdoms(fn)
	p.fnInfo[fn] = fi
	return fi
}

// ipdoms computes immediate post-dominators (block indices; -1 = exit) with
// the classic iterative algorithm on the reverse CFG.
func ipdoms(fn *ssa.Function) []int {
	n := len(fn.Blocks)
	exit := n // virtual exit node
	succs := make([][]int, n+1)
	preds := make([][]int, n+1)
	for _, b := range fn.Blocks {
		if len(b.Succs) == 0 {
			succs[b.Index] = append(succs[b.Index], exit)
			preds[exit] = append(preds[exit], b.Index)
		}
		for _, s := range b.Succs {
			succs[b.Index] = append(succs[b.Index], s.Index)
			preds[s.Index] = append(preds[s.Index], b.Index)
		}
	}
	// reverse post-order of the reverse graph starting at exit
	order := []int{}
	seen := make([]bool, n+1)
	var dfs func(int)
	dfs = func(u int) {
		seen[u] = true
		for _, v := range preds[u] {
			if !seen[v] {
				dfs(v)
			}
		}
		order = append(order, u)
	}
	dfs(exit)
	rpo := make([]int, len(order))
	num := make([]int, n+1)
	for i := range num {
		num[i] = -1
	}
	for i := range order {
		rpo[i] = order[len(order)-1-i]
		num[rpo[i]] = i
	}
	idom := make([]int, n+1)
	for i := range idom {
		idom[i] = -2
	}
	idom[exit] = exit
	intersect := func(a, b int) int {
		for a != b {
			for num[a] > num[b] {
				a = idom[a]
			}
			for num[b] > num[a] {
				b = idom[b]
			}
		}
		return a
	}
	changed := true
	for changed {
		changed = false
		for _, u := range rpo[1:] {
			newI := -2
			for _, s := range succs[u] {
				if idom[s] == -2 {
					continue
				}
				if newI == -2 {
					newI = s
				} else {
					newI = intersect(s, newI)
				}
			}
			if newI != -2 && idom[u] != newI {
				idom[u] = newI
				changed = true
			}
		}
	}
	res := make([]int, n)
	for i := 0; i < n; i++ {
		switch {
		case idom[i] == exit || idom[i] == -2:
			res[i] = -1
		default:
			res[i] = idom[i]
		}
	}
	return res
}
