package exec

import (
	"fmt"
	"go/types"
	"math"
	"strconv"
	"strings"
	"unicode/utf8"

	"golang.org/x/tools/go/ssa"

	"vpengine/term"
)

// ---------------------------------------------------------------- Go builtins

func (st *State) callBuiltin(fr *Frame, bi *ssa.Builtin, args []Value, site ssa.Instruction) Value {
	b := st.b
	switch bi.Name() {
	case "len":
		return st.mapMux(args[0], func(v Value) Value {
			switch x := v.(type) {
			case Slice:
				return b.Const(64, uint64(x.Len))
			case Str:
				return b.Const(64, uint64(len(x.B)))
			case *MapObj:
				if x == nil {
					return b.Const(64, 0)
				}
				return b.Const(64, uint64(len(x.Keys)))
			case Agg:
				return b.Const(64, uint64(len(x)))
			case Ptr: // *array
				call := site.(*ssa.Call)
				at := call.Call.Args[0].Type().Underlying().(*types.Pointer).Elem().Underlying().(*types.Array)
				return b.Const(64, uint64(at.Len()))
			}
			panic(st.unsupported(fmt.Sprintf("len of %T", v)))
		})
	case "cap":
		return st.mapMux(args[0], func(v Value) Value {
			if x, ok := v.(Slice); ok {
				return b.Const(64, uint64(x.Cap))
			}
			panic(st.unsupported(fmt.Sprintf("cap of %T", v)))
		})
	case "append":
		return st.doAppend(st.demux(args[0]), st.demux(args[1]), site)
	case "copy":
		args[0], args[1] = st.demux(args[0]), st.demux(args[1])
		dst, ok := args[0].(Slice)
		if !ok {
			panic(st.unsupported(fmt.Sprintf("copy into %T", args[0])))
		}
		switch src := args[1].(type) {
		case Slice:
			n := dst.Len
			if src.Len < n {
				n = src.Len
			}
			tmp := make([]Value, n*dst.ES)
			if n > 0 {
				copy(tmp, src.Obj.Cells[src.Off:src.Off+n*src.ES])
			}
			for i, c := range tmp {
				st.write(dst.Obj, dst.Off+i, c)
			}
			return b.Const(64, uint64(n))
		case Str:
			n := dst.Len
			if len(src.B) < n {
				n = len(src.B)
			}
			for i := 0; i < n; i++ {
				st.write(dst.Obj, dst.Off+i, src.B[i])
			}
			return b.Const(64, uint64(n))
		}
		panic(st.unsupported(fmt.Sprintf("copy from %T", args[1])))
	case "close":
		ch := args[0].(*ChanObj)
		if ch == nil {
			st.certainPanic("close of nil channel")
		}
		if ch.Closed {
			st.certainPanic("close of closed channel")
		}
		if st.spec != nil {
			panic(specAbort{"channel close"})
		}
		st.chanTouch(ch)
		ch.Closed = true
		if ch.RecvG != 0 {
			// wake the receiver with zero value
			g := st.gByID(ch.RecvG - 1)
			ch.RecvG = 0
			st.deliver(g, st.zero(ch.ET), false)
		}
		return nil
	case "print", "println":
		return nil
	case "recover":
		return Iface{}
	case "min", "max":
		acc := args[0]
		call := site.(*ssa.Call)
		t := call.Type()
		for _, a := range args[1:] {
			w, signed, ok := intType(t)
			if !ok || w == 0 {
				panic(st.unsupported("min/max on non-integers"))
			}
			x, y := acc.(*term.Node), a.(*term.Node)
			var lt *term.Node
			if signed {
				lt = b.Slt(x, y)
			} else {
				lt = b.Ult(x, y)
			}
			if bi.Name() == "min" {
				acc = b.Ite(lt, x, y)
			} else {
				acc = b.Ite(lt, y, x)
			}
		}
		return acc
	case "ssa:wrapnilchk":
		if p, ok := args[0].(Ptr); ok && p.Obj == nil {
			st.certainPanic("nil pointer in method wrapper")
		}
		return args[0]
	}
	panic(st.unsupported("builtin " + bi.Name()))
}

func (st *State) doAppend(s0, e0 Value, site ssa.Instruction) Value {
	s, ok := s0.(Slice)
	if !ok {
		panic(st.unsupported(fmt.Sprintf("append to %T", s0)))
	}
	var cells []Value
	n := 0
	switch e := e0.(type) {
	case Slice:
		n = e.Len
		if n > 0 {
			cells = append(cells, e.Obj.Cells[e.Off:e.Off+n*e.ES]...)
		}
		if s.ES == 0 {
			s.ES = e.ES
		}
	case Str:
		n = len(e.B)
		for _, c := range e.B {
			cells = append(cells, c)
		}
		if s.ES == 0 {
			s.ES = 1
		}
	default:
		panic(st.unsupported(fmt.Sprintf("append of %T", e0)))
	}
	if n == 0 {
		return s
	}
	if s.Obj != nil && s.Len+n <= s.Cap {
		for i, c := range cells {
			st.write(s.Obj, s.Off+s.Len*s.ES+i, c)
		}
		return Slice{Obj: s.Obj, Off: s.Off, Len: s.Len + n, Cap: s.Cap, ES: s.ES}
	}
	nc := s.Cap * 2
	if nc < s.Len+n {
		nc = s.Len + n
	}
	call := site.(*ssa.Call)
	et := call.Type().Underlying().(*types.Slice).Elem()
	ns := st.newSlice(et, s.Len+n, nc)
	if s.Len > 0 {
		copy(ns.Obj.Cells, s.Obj.Cells[s.Off:s.Off+s.Len*s.ES])
	}
	copy(ns.Obj.Cells[s.Len*s.ES:], cells)
	return ns
}

// ---------------------------------------------------------------- goroutines and channels

func (st *State) execGo(fr *Frame, in *ssa.Go) {
	if st.spec != nil {
		panic(specAbort{"go statement"})
	}
	if in.Call.IsInvoke() {
		panic(st.unsupported("go with interface method"))
	}
	fnv := st.get(fr, in.Call.Value)
	var args []Value
	for _, a := range in.Call.Args {
		args = append(args, st.get(fr, a))
	}
	cl, ok := fnv.(*Closure)
	if !ok || cl == nil || cl.Fn == nil {
		panic(st.unsupported("go with non-function value"))
	}
	id := 0
	for _, g := range st.gs {
		if g.id >= id {
			id = g.id + 1
		}
	}
	g := &G{id: id, status: gRunnable, goSite: st.where()}
	st.gs = append(st.gs, g)
	saved := st.cur
	st.cur = g
	st.pushFrame(cl.Fn, args, cl.Bindings, -1)
	st.cur = saved
	st.res.Goroutines++
	fr.ip++
}

// deliver completes a parked receive of goroutine g.
func (st *State) deliver(g *G, v Value, ok bool) {
	fr := g.frames[len(g.frames)-1]
	if g.recvOk {
		fr.regs[g.recvReg] = Agg{v, st.b.Bool(ok)}
	} else {
		fr.regs[g.recvReg] = v
	}
	fr.ip++
	g.status = gRunnable
	g.ch = nil
}

func (st *State) execSend(fr *Frame, in *ssa.Send) {
	if st.spec != nil {
		panic(specAbort{"channel send"})
	}
	ch, _ := st.get(fr, in.Chan).(*ChanObj)
	if ch == nil {
		panic(st.unsupported("send on nil channel (blocks forever)"))
	}
	if ch.Closed {
		st.certainPanic("send on closed channel")
	}
	v := st.get(fr, in.X)
	st.chanTouch(ch)
	if ch.RecvG != 0 {
		g := st.gByID(ch.RecvG - 1)
		ch.RecvG = 0
		st.deliver(g, v, true)
		fr.ip++
		return
	}
	if ch.SendG != 0 {
		panic(st.unsupported("two senders parked on one channel"))
	}
	ch.SendG = st.cur.id + 1
	ch.SendVal = v
	st.cur.status = gParkedSend
	st.cur.ch = ch
	st.schedule()
}

func (st *State) execRecv(fr *Frame, in *ssa.UnOp, x Value) Value {
	if st.spec != nil {
		panic(specAbort{"channel receive"})
	}
	ch, _ := x.(*ChanObj)
	if ch == nil {
		panic(st.unsupported("receive from nil channel (blocks forever)"))
	}
	mk := func(v Value, ok bool) Value {
		if in.CommaOk {
			return Agg{v, st.b.Bool(ok)}
		}
		return v
	}
	if ch.SendG != 0 {
		st.chanTouch(ch)
		g := st.gByID(ch.SendG - 1)
		v := ch.SendVal
		ch.SendG, ch.SendVal = 0, nil
		// sender continues after its send instruction
		sfr := g.frames[len(g.frames)-1]
		sfr.ip++
		g.status = gRunnable
		g.ch = nil
		return mk(v, true)
	}
	if ch.Closed {
		return mk(st.zero(ch.ET), false)
	}
	// park
	st.chanTouch(ch)
	if ch.RecvG != 0 {
		panic(st.unsupported("two receivers parked on one channel"))
	}
	ch.RecvG = st.cur.id + 1
	st.cur.status = gParkedRecv
	st.cur.ch = ch
	st.cur.recvReg = fr.info.Reg[in]
	st.cur.recvOk = in.CommaOk
	st.schedule()
	return nil // register is written on delivery
}

// yield hands the processor to the next runnable goroutine (round robin by id); the current one
// stays runnable and continues after the instruction it is executing.
func (st *State) yield() {
	var next *G
	for _, g := range st.gs {
		if g != st.cur && g.status == gRunnable && len(g.frames) > 0 && g.id > st.cur.id {
			next = g
			break
		}
	}
	if next == nil {
		for _, g := range st.gs {
			if g != st.cur && g.status == gRunnable && len(g.frames) > 0 {
				next = g
				break
			}
		}
	}
	if next != nil {
		st.cur = next
	}
}

// schedule picks the next runnable goroutine (lowest id first). When nobody can
// run and the harness has returned, the path ends after the leak check.
func (st *State) schedule() {
	for _, g := range st.gs {
		if g.status == gRunnable && len(g.frames) > 0 {
			st.cur = g
			return
		}
	}
	if st.gs[0].status == gDone {
		st.leakCheck()
		panic(pathEnd{"return"})
	}
	st.addOblig("deadlock", "all goroutines are blocked", st.b.False)
	st.flushObligs()
	panic(pathEnd{"deadlock"})
}

// leakCheck runs once the harness has returned and every goroutine that could
// still run has run: whatever is parked now is blocked for ever.
func (st *State) leakCheck() {
	if len(st.lockOwner) > 0 {
		st.addOblig("deadlock", "a mutex is still held when the entry point has returned", st.b.False)
		st.flushObligs()
	}
	for _, g := range st.gs[1:] {
		if g.status == gParkedSend || g.status == gParkedRecv {
			what := "send"
			if g.status == gParkedRecv {
				what = "receive"
			}
			msg := fmt.Sprintf("goroutine started at %s is blocked for ever on a channel %s", g.goSite, what)
			if st.inst.AllowLeak {
				st.res.Notes = append(st.res.Notes, msg)
				continue
			}
			st.addObligAt("leak", msg, st.b.False, g.goSite)
			st.flushObligs()
		}
	}
}

// ---------------------------------------------------------------- UTF-8

// decodeRune decodes the rune starting at s[pos] following utf8.DecodeRuneInString;
// symbolic bytes fork over the encoding classes.
func (st *State) decodeRune(s []*term.Node, pos int) (*term.Node, int) {
	b := st.b
	c := func(v uint64) *term.Node { return b.Const(8, v) }
	in := func(x *term.Node, lo, hi uint64) *term.Node { return b.BAnd(b.Ule(c(lo), x), b.Ule(x, c(hi))) }
	z32 := func(x *term.Node) *term.Node { return b.ZExt(x, 32) }
	b0 := st.sub(s[pos])
	ascii := b.Ult(b0, c(0x80))
	guards := []*term.Node{ascii}
	sizes := []int{1}
	runes := []*term.Node{z32(b0)}
	rem := len(s) - pos
	if rem >= 2 {
		b1 := st.sub(s[pos+1])
		g2 := b.BAnd(in(b0, 0xC2, 0xDF), in(b1, 0x80, 0xBF))
		r2 := b.Or(b.Shl(z32(b.And(b0, c(0x1F))), b.Const(32, 6)), z32(b.And(b1, c(0x3F))))
		guards, sizes, runes = append(guards, g2), append(sizes, 2), append(runes, r2)
		if rem >= 3 {
			b2 := st.sub(s[pos+2])
			lead3 := b.BOr(
				b.BAnd(b.Eq(b0, c(0xE0)), in(b1, 0xA0, 0xBF)),
				b.BAnd(b.BOr(in(b0, 0xE1, 0xEC), in(b0, 0xEE, 0xEF)), in(b1, 0x80, 0xBF)),
				b.BAnd(b.Eq(b0, c(0xED)), in(b1, 0x80, 0x9F)))
			g3 := b.BAnd(lead3, in(b2, 0x80, 0xBF))
			r3 := b.Or(b.Or(b.Shl(z32(b.And(b0, c(0x0F))), b.Const(32, 12)), b.Shl(z32(b.And(b1, c(0x3F))), b.Const(32, 6))), z32(b.And(b2, c(0x3F))))
			guards, sizes, runes = append(guards, g3), append(sizes, 3), append(runes, r3)
			if rem >= 4 {
				b3 := st.sub(s[pos+3])
				lead4 := b.BOr(
					b.BAnd(b.Eq(b0, c(0xF0)), in(b1, 0x90, 0xBF)),
					b.BAnd(in(b0, 0xF1, 0xF3), in(b1, 0x80, 0xBF)),
					b.BAnd(b.Eq(b0, c(0xF4)), in(b1, 0x80, 0x8F)))
				g4 := b.BAnd(lead4, in(b2, 0x80, 0xBF), in(b3, 0x80, 0xBF))
				r4 := b.Or(b.Or(b.Shl(z32(b.And(b0, c(0x07))), b.Const(32, 18)), b.Shl(z32(b.And(b1, c(0x3F))), b.Const(32, 12))),
					b.Or(b.Shl(z32(b.And(b2, c(0x3F))), b.Const(32, 6)), z32(b.And(b3, c(0x3F)))))
				guards, sizes, runes = append(guards, g4), append(sizes, 4), append(runes, r4)
			}
		}
	}
	bad := b.BNot(b.BOr(guards...))
	guards, sizes, runes = append(guards, bad), append(sizes, 1), append(runes, b.Const(32, utf8.RuneError))
	k := st.choose(guards)
	return runes[k], sizes[k]
}

// encodeRune encodes a rune as UTF-8; symbolic runes fork over the length classes.
func (st *State) encodeRune(r *term.Node) []*term.Node {
	b := st.b
	c32 := func(v uint64) *term.Node { return b.Const(32, v) }
	lo8 := func(x *term.Node) *term.Node { return b.Extract(x, 7, 0) }
	shr := func(x *term.Node, n uint64) *term.Node { return b.LShr(x, c32(n)) }
	cont := func(x *term.Node) *term.Node {
		return b.Or(b.And(lo8(x), b.Const(8, 0x3F)), b.Const(8, 0x80))
	}
	valid := b.BAnd(b.Sle(c32(0), r), b.Sle(r, c32(0x10FFFF)), b.BNot(b.BAnd(b.Sle(c32(0xD800), r), b.Sle(r, c32(0xDFFF)))))
	g1 := b.BAnd(valid, b.Slt(r, c32(0x80)))
	g2 := b.BAnd(valid, b.Sle(c32(0x80), r), b.Slt(r, c32(0x800)))
	g3 := b.BAnd(valid, b.Sle(c32(0x800), r), b.Slt(r, c32(0x10000)))
	g4 := b.BAnd(valid, b.Sle(c32(0x10000), r))
	k := st.choose([]*term.Node{g1, g2, g3, g4, b.BNot(valid)})
	switch k {
	case 0:
		return []*term.Node{lo8(r)}
	case 1:
		return []*term.Node{b.Or(lo8(shr(r, 6)), b.Const(8, 0xC0)), cont(r)}
	case 2:
		return []*term.Node{b.Or(lo8(shr(r, 12)), b.Const(8, 0xE0)), cont(shr(r, 6)), cont(r)}
	case 3:
		return []*term.Node{b.Or(lo8(shr(r, 18)), b.Const(8, 0xF0)), cont(shr(r, 12)), cont(shr(r, 6)), cont(r)}
	}
	return []*term.Node{b.Const(8, 0xEF), b.Const(8, 0xBF), b.Const(8, 0xBD)}
}

// ---------------------------------------------------------------- intrinsics

type intrinsicFn func(st *State, fr *Frame, fn *ssa.Function, args []Value) Value

func (st *State) argStr(v Value) string {
	s, ok := v.(Str)
	if !ok {
		panic(st.unsupported(fmt.Sprintf("string argument expected, got %T", v)))
	}
	cs, ok := st.strConcrete(s)
	if !ok {
		panic(st.unsupported("intrinsic needs a constant string argument"))
	}
	return cs
}

func (st *State) variadicInts(v Value) []int {
	sl, ok := v.(Slice)
	if !ok || sl.Obj == nil {
		return nil
	}
	var out []int
	for i := 0; i < sl.Len; i++ {
		n := sl.Obj.Cells[sl.Off+i].(*term.Node)
		c, ok := n.ConstVal()
		if !ok {
			panic(st.unsupported("identifier index must be concrete"))
		}
		out = append(out, int(int64(c)))
	}
	return out
}

func (st *State) inputID(args []Value) string {
	id := st.argStr(args[0])
	if len(args) > 1 {
		for _, i := range st.variadicInts(args[1]) {
			id += fmt.Sprintf("[%d]", i)
		}
	}
	return id
}

func (st *State) freshInput(id string, w int, kind string) *term.Node {
	n := st.b.Var("in!"+id, w)
	for _, iv := range st.inputVars {
		if iv.Node == n {
			return n
		}
	}
	st.inputVars = append(st.inputVars, inputVar{ID: id, Node: n, Kind: kind})
	return n
}

func (st *State) intrinsic(fn *ssa.Function) (intrinsicFn, bool) {
	name := fn.Name()
	if fn.Pkg != nil && strings.HasPrefix(name, "vp") && fn.Blocks == nil {
		if h, ok := vpIntrinsics[name]; ok {
			return h, true
		}
	}
	full := fn.String()
	if h, ok := libIntrinsics[full]; ok {
		return h, true
	}
	// package initialisers of packages we do not interpret
	if name == "init" && fn.Pkg != nil && fn.Synthetic != "" {
		if !st.initWanted(fn.Pkg.Pkg.Path()) {
			return func(*State, *Frame, *ssa.Function, []Value) Value { return nil }, true
		}
	}
	return nil, false
}

func (st *State) initWanted(path string) bool {
	if path == st.prog.ModPath || strings.HasPrefix(path, st.prog.ModPath+"/") {
		return true
	}
	switch path {
	case "image/color", "image", "strconv":
		return true
	}
	return false
}

var vpIntrinsics map[string]intrinsicFn
var libIntrinsics = map[string]intrinsicFn{}

func init() {
	vpIntrinsics = map[string]intrinsicFn{
		"vpBool": func(st *State, fr *Frame, fn *ssa.Function, a []Value) Value {
			return st.freshInput(st.inputID(a), 0, "bool")
		},
		"vpByte": func(st *State, fr *Frame, fn *ssa.Function, a []Value) Value {
			return st.freshInput(st.inputID(a), 8, "byte")
		},
		"vpInt": func(st *State, fr *Frame, fn *ssa.Function, a []Value) Value {
			return st.freshInput(st.inputID(a), 64, "int")
		},
		"vpInt32": func(st *State, fr *Frame, fn *ssa.Function, a []Value) Value {
			return st.freshInput(st.inputID(a), 32, "int32")
		},
		"vpRune": func(st *State, fr *Frame, fn *ssa.Function, a []Value) Value {
			return st.freshInput(st.inputID(a), 32, "int32")
		},
		"vpUint": func(st *State, fr *Frame, fn *ssa.Function, a []Value) Value {
			return st.freshInput(st.inputID(a), 64, "uint")
		},
		"vpIntRange": func(st *State, fr *Frame, fn *ssa.Function, a []Value) Value {
			id := st.argStr(a[0])
			lo, hi := a[1].(*term.Node), a[2].(*term.Node)
			if !lo.IsConst() || !hi.IsConst() {
				panic(st.unsupported("vpIntRange bounds must be concrete"))
			}
			n := st.b.VarRange("in!"+id, 64, true, lo.SVal(), hi.SVal())
			found := false
			for _, iv := range st.inputVars {
				if iv.Node == n {
					found = true
				}
			}
			if !found {
				st.inputVars = append(st.inputVars, inputVar{ID: id, Node: n, Kind: "int"})
				if st.model != nil {
					st.model.Vars[n.Name] = uint64(lo.SVal())
					st.ev = term.NewEvaluator(st.model)
				}
			}
			return n
		},
		"vpBytes": func(st *State, fr *Frame, fn *ssa.Function, a []Value) Value {
			id := st.argStr(a[0])
			n := int(a[1].(*term.Node).SVal())
			sl := st.newSlice(types.Typ[types.Uint8], n, n)
			for i := 0; i < n; i++ {
				sl.Obj.Cells[i] = st.freshInput(fmt.Sprintf("%s[%d]", id, i), 8, "byte")
			}
			return sl
		},
		"vpString": func(st *State, fr *Frame, fn *ssa.Function, a []Value) Value {
			id := st.argStr(a[0])
			n := int(a[1].(*term.Node).SVal())
			s := Str{B: make([]*term.Node, n)}
			for i := 0; i < n; i++ {
				s.B[i] = st.freshInput(fmt.Sprintf("%s[%d]", id, i), 8, "byte")
			}
			return s
		},
		"vpStringRange": func(st *State, fr *Frame, fn *ssa.Function, a []Value) Value {
			id := st.argStr(a[0])
			n := int(a[1].(*term.Node).SVal())
			lo, hi := a[2].(*term.Node), a[3].(*term.Node)
			if !lo.IsConst() || !hi.IsConst() || lo.K > hi.K {
				panic(st.unsupported("vpStringRange bounds must be concrete and non-empty"))
			}
			s := Str{B: make([]*term.Node, n)}
			for i := 0; i < n; i++ {
				vid := fmt.Sprintf("%s[%d]", id, i)
				v := st.b.VarRange("in!"+vid, 8, false, int64(lo.K), int64(hi.K))
				found := false
				for _, iv := range st.inputVars {
					if iv.Node == v {
						found = true
						break
					}
				}
				if !found {
					st.inputVars = append(st.inputVars, inputVar{ID: vid, Node: v, Kind: "byte"})
					if st.model != nil {
						st.model.Vars[v.Name] = lo.K
					}
				}
				s.B[i] = v
			}
			if st.model != nil {
				st.ev = term.NewEvaluator(st.model)
			}
			return s
		},
		"vpAssume": func(st *State, fr *Frame, fn *ssa.Function, a []Value) Value {
			st.assume(a[0].(*term.Node))
			return nil
		},
		"vpAssert": func(st *State, fr *Frame, fn *ssa.Function, a []Value) Value {
			c := a[0].(*term.Node)
			msg := st.argStr(a[1])
			st.res.Asserts++
			st.addObligAt("assert", msg, c, st.callerPos())
			return nil
		},
		"vpCover": func(st *State, fr *Frame, fn *ssa.Function, a []Value) Value {
			label := st.argStr(a[0])
			st.res.CoverSeen[label] = true
			st.addOblig("cover", label, a[1].(*term.Node))
			return nil
		},
		"vpConfig": func(st *State, fr *Frame, fn *ssa.Function, a []Value) Value {
			name := st.argStr(a[0])
			v, ok := st.inst.Config[name]
			if !ok {
				panic(Unsupported{"harness asks for unknown config " + name})
			}
			return st.b.Const(64, uint64(int64(v)))
		},
		"vpUF": func(st *State, fr *Frame, fn *ssa.Function, a []Value) Value {
			name := st.argStr(a[0])
			var args []*term.Node
			sl := a[1].(Slice)
			for i := 0; i < sl.Len; i++ {
				args = append(args, sl.Obj.Cells[sl.Off+i].(*term.Node))
			}
			return st.b.App(name, 64, args...)
		},
		"vpMapOrder": func(st *State, fr *Frame, fn *ssa.Function, a []Value) Value {
			st.mapDesc = a[0].(*term.Node) == st.b.True
			return nil
		},
		"vpNativeRepeat": func(st *State, fr *Frame, fn *ssa.Function, a []Value) Value {
			return st.b.Const(64, 1)
		},
		"vpConcretize": func(st *State, fr *Frame, fn *ssa.Function, a []Value) Value {
			n := a[0].(*term.Node)
			return st.b.Const(64, st.concretize(n, "vpConcretize"))
		},
		"vpSymbolic": func(st *State, fr *Frame, fn *ssa.Function, a []Value) Value {
			return st.b.True
		},
		"vpNote": func(st *State, fr *Frame, fn *ssa.Function, a []Value) Value {
			return nil
		},
		"vpTrackGlobals": func(st *State, fr *Frame, fn *ssa.Function, a []Value) Value {
			st.startGlobalTracking()
			return nil
		},
		"vpGlobalWrites": func(st *State, fr *Frame, fn *ssa.Function, a []Value) Value {
			return st.b.Const(64, uint64(len(st.writeLog)))
		},
	}
	opaque := func(tag string) intrinsicFn {
		return func(st *State, fr *Frame, fn *ssa.Function, a []Value) Value { return st.strConst(tag) }
	}
	lib := map[string]intrinsicFn{
		"fmt.Sprintf": opaque("<fmt.Sprintf>"),
		"fmt.Sprint":  opaque("<fmt.Sprint>"),
		"fmt.Errorf": func(st *State, fr *Frame, fn *ssa.Function, a []Value) Value {
			return st.makeError("<fmt.Errorf>")
		},
		"strconv.syntaxError": func(st *State, fr *Frame, fn *ssa.Function, a []Value) Value {
			return st.makeNumError("ErrSyntax")
		},
		"strconv.rangeError": func(st *State, fr *Frame, fn *ssa.Function, a []Value) Value {
			return st.makeNumError("ErrRange")
		},
		"strconv.baseError": func(st *State, fr *Frame, fn *ssa.Function, a []Value) Value {
			return st.makeNumError("ErrSyntax")
		},
		"strconv.bitSizeError": func(st *State, fr *Frame, fn *ssa.Function, a []Value) Value {
			return st.makeNumError("ErrSyntax")
		},
		"strconv.Itoa": func(st *State, fr *Frame, fn *ssa.Function, a []Value) Value {
			n := a[0].(*term.Node)
			if c, ok := n.ConstVal(); ok {
				return st.strConst(strconv.Itoa(int(int64(c))))
			}
			return st.strConst("<strconv.Itoa>")
		},
		"internal/stringslite.Clone": func(st *State, fr *Frame, fn *ssa.Function, a []Value) Value { return a[0] },
		"strings.Clone":              func(st *State, fr *Frame, fn *ssa.Function, a []Value) Value { return a[0] },
		"strings.IndexRune":          intrIndexRune,
		"strings.ContainsRune":       intrContainsRune,
		"unicode/utf8.RuneCountInString": func(st *State, fr *Frame, fn *ssa.Function, a []Value) Value {
			s := a[0].(Str)
			n := 0
			for pos := 0; pos < len(s.B); n++ {
				_, size := st.decodeRune(s.B, pos)
				pos += size
			}
			return st.b.Const(64, uint64(n))
		},
		"math.Ceil":  floatFn1(math.Ceil),
		"math.Floor": floatFn1(math.Floor),
		"math.Abs":   floatFn1(math.Abs),
		"math.Sqrt":  floatFn1(math.Sqrt),
		"math.Modf": func(st *State, fr *Frame, fn *ssa.Function, a []Value) Value {
			f, ok := a[0].(Float)
			if !ok {
				panic(st.unsupported("math.Modf on symbolic float"))
			}
			i, fr2 := math.Modf(f.F)
			return Agg{Float{i}, Float{fr2}}
		},
		"math.Min": func(st *State, fr *Frame, fn *ssa.Function, a []Value) Value {
			x, okx := a[0].(Float)
			y, oky := a[1].(Float)
			if okx && oky {
				return Float{math.Min(x.F, y.F)}
			}
			rx, okx := st.asRat(a[0])
			ry, oky := st.asRat(a[1])
			if !okx || !oky {
				panic(st.unsupported("math.Min on unsupported operands"))
			}
			return RatF{N: append(append([]*term.Node(nil), rx.N...), ry.N...), D: append(append([]*term.Node(nil), rx.D...), ry.D...)}
		},
		"(*sync.Mutex).Lock": func(st *State, fr *Frame, fn *ssa.Function, a []Value) Value {
			p := a[0].(Ptr)
			if owner, held := st.lockOwner[p.Obj]; held {
				if owner == st.cur.id {
					st.certainPanic("mutex locked twice by the same goroutine (deadlock)")
				}
				panic(st.unsupported("mutex contention in coroutine model"))
			}
			st.lockOwner[p.Obj] = st.cur.id
			st.res.LockOps++
			return nil
		},
		"(*sync.Mutex).Unlock": func(st *State, fr *Frame, fn *ssa.Function, a []Value) Value {
			p := a[0].(Ptr)
			if _, held := st.lockOwner[p.Obj]; !held {
				st.certainPanic("unlock of unlocked mutex")
			}
			delete(st.lockOwner, p.Obj)
			st.res.LockOps++
			if st.inst.YieldAtUnlock {
				if st.spec != nil {
					panic(specAbort{"unlock is a preemption point"})
				}
				st.yield()
			}
			return nil
		},
	}
	for k, v := range lib {
		libIntrinsics[k] = v
	}
}

func floatFn1(f func(float64) float64) intrinsicFn {
	return func(st *State, fr *Frame, fn *ssa.Function, a []Value) Value {
		x, ok := a[0].(Float)
		if !ok {
			panic(st.unsupported("math function on symbolic float"))
		}
		return Float{f(x.F)}
	}
}

func (st *State) callerPos() string {
	fs := st.cur.frames
	if len(fs) == 0 {
		return "?"
	}
	fr := fs[len(fs)-1]
	if fr.block != nil && fr.ip < len(fr.block.Instrs) {
		return st.prog.Prog.Fset.Position(fr.block.Instrs[fr.ip].Pos()).String()
	}
	return fr.fn.String()
}

func (st *State) addObligAt(kind, label string, cond *term.Node, pos string) {
	n := len(st.obligs)
	st.addOblig(kind, label, cond)
	if len(st.obligs) > n {
		st.obligs[len(st.obligs)-1].Pos = pos
	}
}

// makeError builds a non-nil error value (an *errors.errorString).
func (st *State) makeError(text string) Value {
	pk := st.prog.Pkgs["errors"]
	if pk == nil {
		panic(st.unsupported("package errors not loaded"))
	}
	tn := pk.Type("errorString")
	o := st.allocZero(tn.Type())
	o.Cells[0] = st.strConst(text)
	return Iface{T: types.NewPointer(tn.Type()), V: Ptr{Obj: o}}
}

// makeNumError builds a *strconv.NumError whose Err is the package's sentinel (ErrSyntax, ErrRange, ...).
func (st *State) makeNumError(sentinel string) Value {
	pk := st.prog.Pkgs["strconv"]
	tn := pk.Type("NumError")
	o := st.allocZero(tn.Type())
	o.Cells[0] = st.strConst("<strconv>")
	o.Cells[1] = st.strConst("<input>")
	if g, ok := pk.Members[sentinel].(*ssa.Global); ok {
		o.Cells[2] = st.globalObject(g).Cells[0]
	} else {
		o.Cells[2] = st.makeError("strconv: " + sentinel)
	}
	return Ptr{Obj: o}
}

// strings.IndexRune / ContainsRune with a constant haystack.
func intrIndexRune(st *State, fr *Frame, fn *ssa.Function, a []Value) Value {
	b := st.b
	r := a[1].(*term.Node)
	if hs, ok := a[0].(Str); ok {
		if _, conc := st.strConcrete(hs); !conc {
			// symbolic haystack, constant ASCII needle: a byte equal to it is that rune (UTF-8 is self-synchronising)
			c, isC := r.ConstVal()
			if !isC || c >= 0x80 {
				panic(st.unsupported("strings.IndexRune on a symbolic haystack needs a constant ASCII needle"))
			}
			res := b.Const(64, ^uint64(0))
			for i := len(hs.B) - 1; i >= 0; i-- {
				res = b.Ite(b.Eq(st.sub(hs.B[i]), b.Const(8, c)), b.Const(64, uint64(i)), res)
			}
			return res
		}
	}
	hay := st.argStr(a[0])
	if c, ok := r.ConstVal(); ok {
		return b.Const(64, uint64(int64(strings.IndexRune(hay, rune(int32(c))))))
	}
	// result = first offset whose rune equals r; -1 otherwise. Invalid runes
	// (out of range, surrogates) search for utf8.RuneError, as the stdlib does.
	valid := b.BAnd(b.Sle(b.Const(32, 0), r), b.Sle(r, b.Const(32, 0x10FFFF)), b.BNot(b.BAnd(b.Sle(b.Const(32, 0xD800), r), b.Sle(r, b.Const(32, 0xDFFF)))))
	needle := b.Ite(valid, r, b.Const(32, utf8.RuneError))
	res := b.Const(64, ^uint64(0))
	type ent struct {
		off int
		r   rune
	}
	var ents []ent
	for off, hr := range hay {
		ents = append(ents, ent{off, hr})
	}
	for i := len(ents) - 1; i >= 0; i-- {
		res = b.Ite(b.Eq(needle, b.Const(32, uint64(ents[i].r))), b.Const(64, uint64(ents[i].off)), res)
	}
	return res
}

func intrContainsRune(st *State, fr *Frame, fn *ssa.Function, a []Value) Value {
	idx := intrIndexRune(st, fr, fn, a).(*term.Node)
	return st.b.Sle(st.b.Const(64, 0), idx)
}

// startGlobalTracking records every object reachable from package-level
// variables; later writes to them outside a held mutex are logged.
func (st *State) startGlobalTracking() {
	st.globalObj = map[*Object]string{}
	st.globalMaps = map[*MapObj]string{}
	var visit func(v Value, label string, depth int)
	seenMap := map[*MapObj]bool{}
	visitObj := func(o *Object, label string, depth int) {
		if o == nil {
			return
		}
		if _, ok := st.globalObj[o]; ok {
			return
		}
		st.globalObj[o] = label
		for _, c := range o.Cells {
			visit(c, label, depth+1)
		}
	}
	visit = func(v Value, label string, depth int) {
		switch x := v.(type) {
		case Ptr:
			visitObj(x.Obj, label, depth)
		case Slice:
			visitObj(x.Obj, label, depth)
		case Iface:
			visit(x.V, label, depth)
		case Agg:
			for _, e := range x {
				visit(e, label, depth)
			}
		case *MapObj:
			if x != nil && !seenMap[x] {
				seenMap[x] = true
				st.globalMaps[x] = label
				for i := range x.Keys {
					visit(x.Vals[i], label, depth)
				}
			}
		case *Closure:
			if x != nil {
				for _, bv := range x.Bindings {
					visit(bv, label, depth)
				}
			}
		}
	}
	for g, o := range st.globals {
		if g.Pkg == nil {
			continue
		}
		path := g.Pkg.Pkg.Path()
		if path == st.prog.ModPath || strings.HasPrefix(path, st.prog.ModPath+"/") {
			visitObj(o, o.Label, 0)
		}
	}
	st.trackGlob = true
}
