package main

import (
	"encoding/json"
	"flag"
	"fmt"
	"os"
	"path/filepath"
	"runtime"
	"runtime/pprof"
	"sort"
	"strconv"
	"strings"
	"sync"
	"time"

	"vpengine/exec"
	"vpengine/replay"
	"vpengine/smt"
	"vpengine/spec"
)

type knownEntry struct {
	Property    string                 `json:"property"`
	ID          string                 `json:"id"`
	Status      string                 `json:"status"` // known | fixed
	Harness     string                 `json:"harness,omitempty"`
	Label       string                 `json:"label,omitempty"`
	Constraints []exec.KnownConstraint `json:"constraints,omitempty"`
	APIWitness  string                 `json:"api_witness,omitempty"`
	What        string                 `json:"what"`
	Commit      string                 `json:"commit,omitempty"`
	Line        string                 `json:"line,omitempty"`
}

func main() {
	if len(os.Args) < 2 {
		usage()
	}
	switch os.Args[1] {
	case "check":
		os.Exit(cmdCheck(os.Args[2:]))
	case "replay":
		os.Exit(cmdReplay(os.Args[2:]))
	case "run":
		os.Exit(cmdRun(os.Args[2:]))
	case "list":
		for _, o := range spec.All() {
			fmt.Printf("%-22s %-12s %-28s %v\n", o.ID, o.Pkg, o.Func, o.Props)
		}
	default:
		usage()
	}
}

func usage() {
	fmt.Fprintln(os.Stderr, "usage: vpcheck check -prop ID -tier quick|thorough | replay -path file | run -run pkg:Func -cfg k=v | list")
	os.Exit(2)
}

func fatal(err error) {
	fmt.Fprintln(os.Stderr, "vpcheck:", err)
	os.Exit(2)
}

type env struct {
	repo, verif, z3 string
	scratch         string
	prog            *exec.Program
	pool            *smt.Pool
}

func setup(repo, verif, z3 string, poolSize int) (*env, error) {
	e := &env{repo: repo, verif: verif, z3: z3}
	scratch, err := os.MkdirTemp("", "vp-scratch-")
	if err != nil {
		return nil, err
	}
	e.scratch = scratch
	if err := exec.CopyTree(repo, scratch); err != nil {
		return e, err
	}
	if _, err := exec.InstallHarness(filepath.Join(verif, "harness"), scratch, false); err != nil {
		return e, err
	}
	prog, err := exec.LoadTolerant(scratch)
	if err != nil {
		return e, err
	}
	e.prog = prog
	pool, err := smt.NewPool(z3, poolSize, "-in")
	if err != nil {
		return e, err
	}
	e.pool = pool
	return e, nil
}

func (e *env) close() {
	if e.pool != nil {
		e.pool.Close()
	}
	if e.scratch != "" {
		os.RemoveAll(e.scratch)
	}
}

func cmdRun(args []string) int {
	fs := flag.NewFlagSet("run", flag.ExitOnError)
	repo := fs.String("repo", "/repo", "")
	verif := fs.String("verif", "/verif", "")
	run := fs.String("run", "", "pkg:Func")
	cfg := fs.String("cfg", "", "k=v,k=v")
	z3 := fs.String("z3", "z3-new", "")
	oblig := fs.String("oblig", "", "run a registered obligation (all its configs of the tier)")
	tier := fs.String("tier", "quick", "")
	rat := fs.Bool("rat", false, "rational float abstraction")
	gfsum := fs.Bool("gfsum", false, "summarise GaloisField.Multiply by the reference product")
	tlimit := fs.Duration("tl", 0, "time limit per instance")
	redir := fs.String("redirect", "", "from=pkg:Func[,from=pkg:Func] call redirections (summaries / stubs)")
	fs.Parse(args)
	if pf := os.Getenv("VP_CPUPROFILE"); pf != "" {
		if f, err := os.Create(pf); err == nil {
			pprof.StartCPUProfile(f)
			defer pprof.StopCPUProfile()
			go func() { // experimentation: flush and leave after a fixed time
				time.Sleep(45 * time.Second)
				pprof.StopCPUProfile()
				f.Close()
				os.Exit(3)
			}()
		}
	}
	e, err := setup(*repo, *verif, *z3, 12)
	defer e.close()
	if err != nil {
		fatal(err)
	}
	var insts []*exec.Instance
	if *oblig != "" {
		var obs []*spec.Oblig
		for _, o := range spec.All() {
			if o.ID == *oblig {
				obs = append(obs, o)
			}
		}
		insts = spec.Instances(obs, *tier, 1)
	} else {
		parts := strings.SplitN(*run, ":", 2)
		inst := &exec.Instance{Name: *run, Pkg: parts[0], Func: parts[1], Config: map[string]int{}, RatFloat: *rat}
		for _, kv := range strings.Split(*cfg, ",") {
			if kv == "" {
				continue
			}
			p := strings.SplitN(kv, "=", 2)
			v, _ := strconv.Atoi(p[1])
			inst.Config[p[0]] = v
		}
		inst.TimeLimit = *tlimit
		if *redir != "" {
			inst.Redirect = map[string]string{}
			for _, kv := range strings.Split(*redir, ",") {
				p := strings.SplitN(kv, "=", 2)
				inst.Redirect[p[0]] = p[1]
			}
		}
		if *gfsum {
			if inst.Redirect == nil {
				inst.Redirect = map[string]string{}
			}
			inst.Redirect["(*github.com/boombuler/barcode/utils.GaloisField).Multiply"] = "utils:VPGFMulSummary"
		}
		insts = append(insts, inst)
	}
	rc := 0
	for _, inst := range insts {
		res := exec.RunInstance(e.prog, inst, exec.Solvers{Path: e.z3, Pool: e.pool})
		v := res.Verdict()
		fmt.Printf("%s: paths=%d infeasible=%d forks=%d merges=%d aborts=%d steps=%d vcs=%d trivial=%d feasq=%d (%.2fs) solver=%.2fs wall=%.2fs nodes=%d\n",
			inst.Name, res.Paths, res.Infeasible, res.Forks, res.Merges, res.MergeAborts, res.Steps, res.VCs, res.TrivialVCs, res.FeasQueries, res.FeasSecs, res.SolverSecs, res.Wall, res.NodeCount)
		for _, x := range v.Inconclusive {
			fmt.Println("  INCONCLUSIVE:", x)
			rc = 2
		}
		if d := os.Getenv("VP_DUMP"); d != "" {
			n := 0
			for _, vr := range res.Results {
				if vr.Script != "" {
					os.WriteFile(fmt.Sprintf("%s/vc-%s-%d.smt2", d, vr.Result, n), []byte(vr.Script), 0o644)
					n++
				}
			}
		}
		for _, vi := range v.Violations {
			fmt.Printf("  VIOLATION-CANDIDATE: %s %q at %s inputs=%v\n", vi.Kind, vi.Label, vi.Pos, vi.Inputs)
			rc = 1
		}
		for _, vi := range v.Known {
			fmt.Printf("  KNOWN: %q inputs=%v\n", vi.Label, vi.Inputs)
		}
		fmt.Println("  covers:", res.CoverHit, "leak-notes:", len(res.Notes), "global-writes:", len(res.WriteLog))
		for _, w := range res.WriteLog {
			fmt.Println("  write:", w)
		}
		if os.Getenv("VP_ABORTS") != "" {
			for k, n := range res.AbortReasons {
				fmt.Printf("  abort %6d %s\n", n, k)
			}
		}
	}
	return rc
}

func loadKnown(verif string) ([]knownEntry, error) {
	raw, err := os.ReadFile(filepath.Join(verif, "known_findings.json"))
	if err != nil {
		if os.IsNotExist(err) {
			return nil, nil
		}
		return nil, err
	}
	var ks []knownEntry
	if err := json.Unmarshal(raw, &ks); err != nil {
		return nil, fmt.Errorf("known_findings.json: %v", err)
	}
	return ks, nil
}

type instSummary struct {
	Name         string            `json:"instance"`
	Oblig        string            `json:"obligation"`
	Config       map[string]int    `json:"config,omitempty"`
	Paths        int               `json:"paths"`
	Infeasible   int               `json:"infeasible_paths"`
	Steps        int64             `json:"ssa_instructions"`
	Merges       int               `json:"merged_branches"`
	Forks        int               `json:"forks"`
	VCs          int               `json:"solver_vcs"`
	Trivial      int               `json:"closed_by_term_normalisation"`
	FeasQ        int               `json:"feasibility_queries"`
	SolverSecs   float64           `json:"solver_s"`
	Wall         float64           `json:"wall_s"`
	Covers       []string          `json:"covers_reached,omitempty"`
	Sample       map[string]uint64 `json:"sample_path_inputs,omitempty"`
	SampleTotal  int               `json:"sample_path_inputs_total,omitempty"`
	Verdict      string            `json:"verdict"`
	Inconclusive []string          `json:"inconclusive,omitempty"`
}

func cmdCheck(args []string) int {
	fs := flag.NewFlagSet("check", flag.ExitOnError)
	repo := fs.String("repo", "/repo", "")
	verif := fs.String("verif", "/verif", "")
	prop := fs.String("prop", "", "property id")
	tier := fs.String("tier", "quick", "")
	z3 := fs.String("z3", "z3-new", "")
	jobs := fs.Int("j", 0, "parallel instances")
	only := fs.String("only", "", "restrict to obligation ids with this prefix (debugging)")
	noEvidence := fs.Bool("no-evidence", false, "")
	verbose := fs.Bool("v", false, "per-instance statistics")
	fs.Parse(args)
	if env := os.Getenv("VERIF_TIER"); env != "" && (env == "quick" || env == "thorough") {
		*tier = env
	}
	seed := int64(1)
	if s := os.Getenv("VERIF_SEED"); s != "" {
		if v, err := strconv.ParseInt(s, 10, 64); err == nil {
			seed = v
		}
	}
	t0 := time.Now()
	obs := spec.ForProperty(*prop)
	if *only != "" {
		var f []*spec.Oblig
		for _, o := range obs {
			if strings.HasPrefix(o.ID, *only) {
				f = append(f, o)
			}
		}
		obs = f
	}
	if len(obs) == 0 {
		fmt.Printf("INCONCLUSIVE property=%s no obligations registered\n", *prop)
		return 2
	}
	known, err := loadKnown(*verif)
	if err != nil {
		fatal(err)
	}
	ncpu := runtime.NumCPU()
	if *jobs == 0 {
		*jobs = ncpu - 2
		if *jobs < 2 {
			*jobs = 2
		}
	}
	e, err := setup(*repo, *verif, *z3, ncpu)
	defer e.close()
	if err != nil {
		fmt.Printf("INCONCLUSIVE property=%s cannot build the encoding from %s: %v\n", *prop, *repo, err)
		return 2
	}
	insts := spec.Instances(obs, *tier, seed)
	for _, in := range insts {
		if in.TimeLimit == 0 {
			in.TimeLimit = 15 * time.Minute
			if *tier == "thorough" {
				in.TimeLimit = 45 * time.Minute
			}
		}
		for _, k := range known {
			if k.Status == "known" && k.Property == *prop && (k.Harness == "" || k.Harness == in.Func) {
				in.Known = append(in.Known, exec.KnownPred{ID: k.ID, Label: k.Label, Constraints: k.Constraints})
			}
		}
	}
	results := make([]*exec.InstanceResult, len(insts))
	var wg sync.WaitGroup
	sem := make(chan struct{}, *jobs)
	for i, in := range insts {
		wg.Add(1)
		sem <- struct{}{}
		go func(i int, in *exec.Instance) {
			defer wg.Done()
			defer func() { <-sem }()
			results[i] = exec.RunInstance(e.prog, in, exec.Solvers{Path: e.z3, Pool: e.pool})
		}(i, in)
	}
	wg.Wait()

	// ---- classify
	runner := replay.NewRunner(*repo, filepath.Join(*verif, "harness"))
	defer runner.Close()
	var inconclusive []string
	var summaries []instSummary
	var cands []*replay.Case
	var knownSeen []exec.Violation
	sampleByFunc := map[string]*replay.Case{}
	var totPaths, totVCs, totTrivial, totFeas int
	var totSteps int64
	var solverSecs float64
	funcs := map[string]int{}
	for i, r := range results {
		in := insts[i]
		v := r.Verdict()
		s := instSummary{Name: in.Name, Oblig: in.Oblig, Config: in.Config, Paths: r.Paths, Infeasible: r.Infeasible, Steps: r.Steps,
			Merges: r.Merges, Forks: r.Forks, VCs: r.VCs, Trivial: r.TrivialVCs, FeasQ: r.FeasQueries, SolverSecs: r.SolverSecs, Wall: r.Wall, Sample: r.SamplePath}
		if len(s.Sample) > 24 {
			// evidence files stay small: keep the 24 first inputs (by name) and say how many there were
			keys := make([]string, 0, len(s.Sample))
			for k := range s.Sample {
				keys = append(keys, k)
			}
			sort.Strings(keys)
			cut := map[string]uint64{}
			for _, k := range keys[:24] {
				cut[k] = s.Sample[k]
			}
			s.SampleTotal = len(s.Sample)
			s.Sample = cut
		}
		for c := range r.CoverHit {
			s.Covers = append(s.Covers, c)
		}
		sort.Strings(s.Covers)
		totPaths += r.Paths
		totVCs += r.VCs
		totTrivial += r.TrivialVCs
		totFeas += r.FeasQueries
		totSteps += r.Steps
		solverSecs += r.SolverSecs + r.FeasSecs
		for f, n := range r.Funcs {
			funcs[f] += n
		}
		s.Verdict = "holds-within-bound"
		if len(v.Inconclusive) > 0 {
			s.Verdict = "inconclusive"
			s.Inconclusive = v.Inconclusive
			for _, x := range v.Inconclusive {
				inconclusive = append(inconclusive, in.Name+": "+x)
			}
		}
		seen := map[string]int{}
		for _, vi := range v.Violations {
			s.Verdict = "counterexample"
			key := vi.Kind + "|" + vi.Label
			if seen[key] >= 2 {
				continue
			}
			seen[key]++
			cands = append(cands, &replay.Case{Pkg: in.Pkg, Harness: in.Func, Config: in.Config, Inputs: vi.Inputs, UF: vi.UF,
				Property: *prop, Label: vi.Label, Kind: vi.Kind, Pos: vi.Pos, ID: in.Name})
		}
		knownSeen = append(knownSeen, v.Known...)
		if len(v.Violations) == 0 && r.SamplePath != nil {
			if _, ok := sampleByFunc[in.Func]; !ok {
				sampleByFunc[in.Func] = &replay.Case{Pkg: in.Pkg, Harness: in.Func, Config: in.Config, Inputs: r.SamplePath, ID: in.Name, Kind: "sample"}
			}
		}
		summaries = append(summaries, s)
	}
	// ---- native replays: counterexamples and one sample path per harness function
	var samples []*replay.Case
	var fnames []string
	for f := range sampleByFunc {
		fnames = append(fnames, f)
	}
	sort.Strings(fnames)
	for _, f := range fnames {
		samples = append(samples, sampleByFunc[f])
	}
	// known findings are confirmed natively as well
	var knownCases []*replay.Case
	for _, kv := range knownSeen {
		knownCases = append(knownCases, &replay.Case{Pkg: kv.Instance.Pkg, Harness: kv.Instance.Func, Config: kv.Instance.Config, Inputs: kv.Inputs, UF: kv.UF,
			Property: *prop, Label: kv.Label, Kind: "known", ID: kv.Instance.Name})
	}
	all := append(append(append([]*replay.Case{}, cands...), knownCases...), samples...)
	outcomes, rerr := runner.Run(all, 5*time.Minute)
	if rerr != nil {
		inconclusive = append(inconclusive, "native replay failed: "+rerr.Error())
	}
	validated := 0
	violations := 0
	knownPrinted := map[string]bool{}
	os.MkdirAll(filepath.Join(*verif, "replays", *prop), 0o755)
	for _, o := range outcomes {
		c := o.Case
		switch c.Kind {
		case "sample":
			validated++
			if o.Fails() {
				inconclusive = append(inconclusive, fmt.Sprintf("engine-mismatch: sample path of %s fails natively (%s %s) although every obligation was discharged", c.ID, o.Status, o.Detail))
			}
		case "known":
			validated++
			id := strings.SplitN(c.Label, "|", 2)[0]
			if o.Fails() && !knownPrinted[id] {
				knownPrinted[id] = true
				what := id
				for _, k := range known {
					if k.ID == id {
						what = k.ID + ": " + k.What
					}
				}
				fmt.Printf("KNOWN-FINDING: property=%s %s\n", *prop, what)
			}
		default:
			validated++
			if o.Fails() {
				violations++
				path := filepath.Join(*verif, "replays", *prop, sanitize(c.ID)+fmt.Sprintf("-%d.json", violations))
				raw, _ := json.MarshalIndent(c, "", " ")
				os.WriteFile(path, raw, 0o644)
				fmt.Printf("VIOLATION property=%s replay=%s\n", *prop, path)
				fmt.Printf("  instance=%s %s: %s (%s) native: %s %s\n  inputs: %s\n", c.ID, c.Kind, c.Label, c.Pos, o.Status, o.Detail, fmtInputs(c.Inputs))
			} else {
				inconclusive = append(inconclusive, fmt.Sprintf("engine-mismatch: counterexample for %q in %s does not reproduce natively (%s %s) inputs %s", c.Label, c.ID, o.Status, o.Detail, fmtInputs(c.Inputs)))
			}
		}
	}
	for _, x := range inconclusive {
		fmt.Printf("INCONCLUSIVE property=%s %s\n", *prop, x)
	}
	if *verbose {
		for _, s := range summaries {
			fmt.Printf("  %-40s paths=%-5d steps=%-9d vcs=%-5d trivial=%-6d feasq=%-5d solver=%.1fs wall=%.1fs %s\n", s.Name, s.Paths, s.Steps, s.VCs, s.Trivial, s.FeasQ, s.SolverSecs, s.Wall, s.Verdict)
		}
	}
	wall := time.Since(t0).Seconds()
	fmt.Printf("SUMMARY property=%s tier=%s instances=%d paths=%d ssa_instructions=%d vcs=%d trivial=%d feasibility_queries=%d violations=%d inconclusive=%d known=%d solver_s=%.1f wall_s=%.1f\n",
		*prop, *tier, len(insts), totPaths, totSteps, totVCs, totTrivial, totFeas, violations, len(inconclusive), len(knownPrinted), solverSecs, wall)

	if !*noEvidence {
		writeEvidence(*verif, *prop, *tier, seed, obs, summaries, funcs, evTotals{totPaths, totSteps, totVCs, totTrivial, totFeas, validated, violations, len(inconclusive), solverSecs, wall}, knownPrinted, e.z3)
	}
	switch {
	case violations > 0:
		return 1
	case len(inconclusive) > 0:
		return 2
	}
	return 0
}

type evTotals struct {
	paths                int
	steps                int64
	vcs, trivial, feas   int
	validated, viol, inc int
	solverSecs, wall     float64
}

func sanitize(s string) string {
	r := strings.NewReplacer("[", "_", "]", "", "=", "-", ",", "_", "/", "_", " ", "_")
	return r.Replace(s)
}

func fmtInputs(m map[string]uint64) string {
	var ks []string
	for k := range m {
		ks = append(ks, k)
	}
	sort.Strings(ks)
	var sb strings.Builder
	for i, k := range ks {
		if i > 40 {
			sb.WriteString("…")
			break
		}
		fmt.Fprintf(&sb, "%s=%d ", k, m[k])
	}
	return sb.String()
}

func writeEvidence(verif, prop, tier string, seed int64, obs []*spec.Oblig, sums []instSummary, funcs map[string]int, t evTotals, known map[string]bool, z3 string) {
	var oblDocs []map[string]interface{}
	var assumptions []string
	realSet := map[string]bool{}
	for _, o := range obs {
		bound := o.Bound
		if spec.EffectiveTier(o.ID, "thorough") == "quick" {
			bound += " [registered thorough tier: the quick configurations; deeper ones named here exceeded the time cap or came back inconclusive when tried]"
		}
		oblDocs = append(oblDocs, map[string]interface{}{"id": o.ID, "harness": o.Pkg + ":" + o.Func, "what": o.Desc, "bound": bound, "real_functions": o.Real, "stubs_and_assumptions": o.Stubs})
		for _, s := range o.Stubs {
			assumptions = append(assumptions, o.ID+": "+s)
		}
		for _, r := range o.Real {
			realSet[r] = true
		}
	}
	var fl []string
	for f := range funcs {
		if strings.Contains(f, "boombuler/barcode") && !strings.Contains(f, "VP_") && !strings.Contains(f, ".vp") && !strings.Contains(f, "init") {
			fl = append(fl, fmt.Sprintf("%s x%d", f, funcs[f]))
		}
	}
	sort.Strings(fl)
	nontrivial := 0
	for _, s := range sums {
		if s.VCs > 0 || s.FeasQ > 0 {
			nontrivial++
		}
	}
	samples := []interface{}{}
	for i, s := range sums {
		if i < 6 || i == len(sums)-1 {
			samples = append(samples, s)
		}
	}
	var kf []string
	for k := range known {
		kf = append(kf, k)
	}
	sort.Strings(kf)
	ev := map[string]interface{}{
		"property_id": prop,
		"tier":        tier,
		"seed":        seed,
		"level":       "model_checking",
		"wall_s":      t.wall,
		"violations":  t.viol,
		"assumptions": append(assumptions,
			"every claim is bounded: see coverage.obligations[*].bound; inputs outside the bounds are outside the claim",
			"library models (errors/fmt opaque, strings.IndexRune on constant haystacks, UTF-8 built-ins, sync.Mutex as owner flag, math.* concrete) as listed in DESIGN.md section 2.4",
			"soundness of the term simplifier (fuzz-tested against reference semantics in engine/term) and of the solver"),
		"coverage": map[string]interface{}{
			"states":                           t.paths,
			"transitions":                      t.steps,
			"traces_validated_against_impl":    t.validated,
			"samples":                          samples,
			"obligations":                      t.vcs + t.trivial,
			"discharged":                       t.vcs + t.trivial - t.viol - t.inc,
			"evaluations":                      len(sums),
			"distinct_nontrivial":              nontrivial,
			"rule":                             "one evaluation = one harness instance (harness function x configuration) explored path-exhaustively by the symbolic executor; an instance is non-trivial if at least one of its obligations or branch decisions needed the SMT solver (not closed by term normalisation alone); states = complete feasible paths, transitions = go/ssa instructions interpreted",
			"technique":                        "bounded symbolic execution of go/ssa of /repo's current tree into SMT-LIB2; verdicts by " + z3,
			"obligation_families":              oblDocs,
			"solver_vcs":                       t.vcs,
			"vcs_closed_by_term_normalisation": t.trivial,
			"feasibility_queries":              t.feas,
			"solver_seconds":                   t.solverSecs,
			"inconclusive":                     t.inc,
			"known_findings_seen":              kf,
			"repo_functions_executed":          fl,
			"instances":                        sums,
			"exhaustive":                       false,
		},
	}
	os.MkdirAll(filepath.Join(verif, "evidence"), 0o755)
	raw, _ := json.MarshalIndent(ev, "", " ")
	os.WriteFile(filepath.Join(verif, "evidence", prop+".json"), raw, 0o644)
}

func cmdReplay(args []string) int {
	fs := flag.NewFlagSet("replay", flag.ExitOnError)
	repo := fs.String("repo", "/repo", "")
	verif := fs.String("verif", "/verif", "")
	path := fs.String("path", "", "replay file")
	fs.Parse(args)
	raw, err := os.ReadFile(*path)
	if err != nil {
		fatal(err)
	}
	var c replay.Case
	if err := json.Unmarshal(raw, &c); err != nil {
		fatal(err)
	}
	runner := replay.NewRunner(*repo, filepath.Join(*verif, "harness"))
	defer runner.Close()
	outs, err := runner.Run([]*replay.Case{&c}, 5*time.Minute)
	if err != nil {
		fatal(err)
	}
	for _, o := range outs {
		fmt.Printf("replay %s %s: %s %s\n", c.Harness, fmtInputs(c.Inputs), o.Status, o.Detail)
		if o.Fails() {
			fmt.Printf("VIOLATION property=%s replay=%s\n", c.Property, *path)
			return 1
		}
	}
	return 0
}
