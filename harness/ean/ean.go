package ean

import (
	"image"
	"image/color"

	"github.com/boombuler/barcode"
)

// C06 / C14 / C10 / C11 for EAN-8 and EAN-13.

// GS1 General Specifications: set A (odd parity, "L") patterns; B ("G") is the
// mirror image of C ("R"), C is the complement of A.
var vpL = [10]int{0x0D, 0x19, 0x13, 0x3D, 0x23, 0x31, 0x2F, 0x3B, 0x37, 0x0B}

// parity of the six left-hand digits of EAN-13 by first digit: bit 5 = first left digit; 1 = set B ("G").
var vpParity = [10]int{0x00, 0x0B, 0x0D, 0x0E, 0x13, 0x19, 0x1C, 0x15, 0x16, 0x1A}

func vpRev7(p int) int {
	r := 0
	for i := 0; i < 7; i++ {
		r = (r << 1) | ((p >> uint(i)) & 1)
	}
	return r
}

type vpCol struct{ id int }

func (c vpCol) RGBA() (r, g, b, a uint32) { return uint32(c.id), 0, 0, 0xffff }

// vpModules returns the expected module sequence (true = bar) of the full number digs (8 or 13 digits, values 0..9).
func vpModules(digs []int) []bool {
	out := make([]bool, 0, 95)
	add := func(p, n int) {
		for k := n - 1; k >= 0; k-- {
			out = append(out, (p>>uint(k))&1 == 1)
		}
	}
	add(5, 3) // 101
	if len(digs) == 8 {
		for i := 0; i < 4; i++ {
			add(vpL[digs[i]], 7)
		}
		add(0x0A, 5) // 01010
		for i := 4; i < 8; i++ {
			add(vpL[digs[i]]^0x7F, 7)
		}
	} else {
		par := vpParity[digs[0]]
		for i := 1; i <= 6; i++ {
			p := vpL[digs[i]]
			if (par>>uint(6-i))&1 == 1 {
				p = vpRev7(p ^ 0x7F)
			}
			add(p, 7)
		}
		add(0x0A, 5)
		for i := 7; i < 13; i++ {
			add(vpL[digs[i]]^0x7F, 7)
		}
	}
	add(5, 3)
	return out
}

func VP_EAN() {
	n := vpConfig("n")
	code := vpString("c", n)
	// the input space is split in two by assumption: all bytes are digits / some byte is not
	if vpConfig("digits") == 1 {
		for i := 0; i < n; i++ {
			vpAssume(code[i] >= '0' && code[i] <= '9')
		}
	} else {
		some := false
		for i := 0; i < n; i++ {
			some = some || code[i] < '0' || code[i] > '9'
		}
		vpAssume(some)
	}
	scheme := barcode.ColorScheme16
	var bc barcode.BarcodeIntCS
	var err error
	withColor := vpConfig("color") == 1
	if withColor {
		scheme = barcode.ColorScheme{Model: color.RGBAModel, Foreground: vpCol{1}, Background: vpCol{2}}
		bc, err = EncodeWithColor(code, scheme)
	} else {
		bc, err = Encode(code)
	}
	vpAssert((bc == nil) != (err == nil), "exactly one of barcode and error is nil")
	allDigits := true
	for i := 0; i < n; i++ {
		if code[i] < '0' || code[i] > '9' {
			allDigits = false
		}
	}
	lenOK := n == 7 || n == 8 || n == 12 || n == 13
	if !lenOK || !allDigits {
		vpAssert(err != nil, "wrong length or a non-digit is rejected")
		if lenOK {
			vpCover("rejected-non-digit", true)
		}
		return
	}
	// digits and the GS1 check digit: weights 3,1,3,... from the right-most data digit
	m := n
	if n == 8 || n == 13 {
		m = n - 1
	}
	digs := make([]int, m+1)
	sum := 0
	for i := 0; i < m; i++ {
		d := int(code[i] - '0')
		digs[i] = d
		if (m-1-i)%2 == 0 {
			sum += 3 * d
		} else {
			sum += d
		}
	}
	check := (10 - sum%10) % 10
	digs[m] = check
	if n == 8 || n == 13 {
		given := int(code[n-1] - '0')
		if given != check {
			vpAssert(err != nil, "a wrong check digit is rejected")
			vpCover("rejected-check-digit", true)
			return
		}
	}
	vpAssert(err == nil && bc != nil, "digits with a correct (or absent) check digit are accepted")
	if bc == nil {
		return
	}
	vpCover("accepted", true)
	// Content = full number
	content := bc.Content()
	vpAssert(len(content) == m+1, "Content has 8 or 13 characters")
	if len(content) == m+1 {
		for i := 0; i <= m; i++ {
			vpAssert(int(content[i]) == '0'+digs[i], "Content is the full number including the check digit")
		}
	}
	vpAssert(bc.CheckSum() == check, "CheckSum() is the GS1 check digit")
	md := bc.Metadata()
	if m+1 == 8 {
		vpAssert(md.CodeKind == "EAN 8" && md.Dimensions == 1, "metadata says EAN 8, 1D")
	} else {
		vpAssert(md.CodeKind == "EAN 13" && md.Dimensions == 1, "metadata says EAN 13, 1D")
	}
	want := vpModules(digs)
	vpAssert(bc.Bounds() == image.Rect(0, 0, len(want), 1), "bounds are (0,0)-(67|95,1)")
	vpAssert(len(want) == 67 || len(want) == 95, "67 or 95 modules")
	vpAssert(bc.ColorModel() == scheme.Model, "ColorModel is the scheme's model")
	if cs, ok := bc.(barcode.BarcodeColor); ok {
		got := cs.ColorScheme()
		vpAssert(got.Model == scheme.Model && got.Foreground == scheme.Foreground && got.Background == scheme.Background, "ColorScheme() reports the scheme in force")
	} else {
		vpAssert(false, "EAN barcodes expose their colour scheme")
	}
	if bc.Bounds().Dx() == len(want) {
		for x := 0; x < len(want); x++ {
			px := bc.At(x, 0)
			if want[x] {
				vpAssert(px == scheme.Foreground, "bar module has the foreground colour")
			} else {
				vpAssert(px == scheme.Background, "space module has the background colour")
			}
		}
	}
}


// C15 / C16: purity (deterministic, history-free, no package-level writes)
func VP_PURE() {
	n := vpConfig("n")
	content := vpString("c", n)
	for i := 0; i < n; i++ {
		vpAssume(content[i] >= '0' && content[i] <= '9')
	}
	vpTrackGlobals()
	a, errA := Encode(content)
	_, _ = Encode("5901234123457")
	b, errB := Encode(content)
	vpAssert((errA == nil) == (errB == nil), "the same call succeeds or fails the same way every time ")
	if errA == nil && errB == nil {
		vpAssert(a.Bounds() == b.Bounds() && a.Content() == b.Content(), "the same call returns the same barcode whatever was encoded before")
		if a.Bounds() == b.Bounds() {
			for x := 0; x < a.Bounds().Dx(); x++ {
				vpAssert(a.At(x, 0) == b.At(x, 0), "the same call returns the same pixels whatever was encoded before")
			}
		}
	}
	vpAssert(vpGlobalWrites() == 0, "no package-level state is written")
	vpCover("reached", true)
}
