package term

import (
	"fmt"
	"sort"
	"strings"
)

// Model assigns values to variables (by name) and to UF applications (by
// function name and argument tuple).
type Model struct {
	Vars map[string]uint64
	UF   map[string]map[string]uint64 // name -> "a,b,c" -> value
}

func NewModel() *Model { return &Model{Vars: map[string]uint64{}, UF: map[string]map[string]uint64{}} }

func ufKey(args []uint64) string {
	var sb strings.Builder
	for i, a := range args {
		if i > 0 {
			sb.WriteByte(',')
		}
		fmt.Fprintf(&sb, "%d", a)
	}
	return sb.String()
}

// Evaluator evaluates terms under a model with memoisation.
type Evaluator struct {
	M    *Model
	memo map[int]uint64
}

func NewEvaluator(m *Model) *Evaluator { return &Evaluator{M: m, memo: map[int]uint64{}} }

func (e *Evaluator) Bool(n *Node) bool { return e.Eval(n) != 0 }

func (e *Evaluator) Eval(n *Node) uint64 {
	if n.Op == OpConst {
		return n.K
	}
	if v, ok := e.memo[n.ID]; ok {
		return v
	}
	v := e.eval(n)
	if n.W > 0 {
		v &= mask(n.W)
	} else if v != 0 {
		v = 1
	}
	e.memo[n.ID] = v
	return v
}

func b2u(c bool) uint64 {
	if c {
		return 1
	}
	return 0
}

func (e *Evaluator) eval(n *Node) uint64 {
	w := n.W
	a := n.Args
	switch n.Op {
	case OpVar:
		return e.M.Vars[n.Name]
	case OpApp:
		args := make([]uint64, len(a))
		for i, x := range a {
			args[i] = e.Eval(x)
		}
		if t, ok := e.M.UF[n.Name]; ok {
			return t[ufKey(args)]
		}
		return 0
	case OpAdd:
		return e.Eval(a[0]) + e.Eval(a[1])
	case OpSub:
		return e.Eval(a[0]) - e.Eval(a[1])
	case OpMul:
		return e.Eval(a[0]) * e.Eval(a[1])
	case OpUDiv:
		y := e.Eval(a[1])
		if y == 0 {
			return mask(w)
		}
		return e.Eval(a[0]) / y
	case OpURem:
		y := e.Eval(a[1])
		if y == 0 {
			return e.Eval(a[0])
		}
		return e.Eval(a[0]) % y
	case OpSDiv:
		x, y := sx(e.Eval(a[0]), w), sx(e.Eval(a[1]), w)
		if y == 0 {
			if x < 0 {
				return 1
			}
			return mask(w)
		}
		if y == -1 {
			return uint64(-x)
		}
		return uint64(x / y)
	case OpSRem:
		x, y := sx(e.Eval(a[0]), w), sx(e.Eval(a[1]), w)
		if y == 0 {
			return uint64(x)
		}
		if y == -1 {
			return 0
		}
		return uint64(x % y)
	case OpAnd:
		return e.Eval(a[0]) & e.Eval(a[1])
	case OpOr:
		return e.Eval(a[0]) | e.Eval(a[1])
	case OpXor:
		return e.Eval(a[0]) ^ e.Eval(a[1])
	case OpNot:
		return ^e.Eval(a[0])
	case OpNeg:
		return -e.Eval(a[0])
	case OpShl:
		s := e.Eval(a[1])
		if s >= uint64(w) {
			return 0
		}
		return e.Eval(a[0]) << s
	case OpLShr:
		s := e.Eval(a[1])
		if s >= uint64(w) {
			return 0
		}
		return e.Eval(a[0]) >> s
	case OpAShr:
		s := e.Eval(a[1])
		if s >= uint64(w) {
			s = uint64(w - 1)
		}
		return uint64(sx(e.Eval(a[0]), w) >> s)
	case OpExtract:
		return e.Eval(a[0]) >> uint(n.K2)
	case OpConcat:
		return e.Eval(a[0])<<uint(a[1].W) | e.Eval(a[1])
	case OpZExt:
		return e.Eval(a[0])
	case OpSExt:
		return uint64(sx(e.Eval(a[0]), a[0].W))
	case OpIte:
		if e.Eval(a[0]) != 0 {
			return e.Eval(a[1])
		}
		return e.Eval(a[2])
	case OpB2V:
		return e.Eval(a[0])
	case OpEq:
		return b2u(e.Eval(a[0]) == e.Eval(a[1]))
	case OpUlt:
		return b2u(e.Eval(a[0]) < e.Eval(a[1]))
	case OpUle:
		return b2u(e.Eval(a[0]) <= e.Eval(a[1]))
	case OpSlt:
		return b2u(sx(e.Eval(a[0]), a[0].W) < sx(e.Eval(a[1]), a[1].W))
	case OpSle:
		return b2u(sx(e.Eval(a[0]), a[0].W) <= sx(e.Eval(a[1]), a[1].W))
	case OpBAnd:
		for _, x := range a {
			if e.Eval(x) == 0 {
				return 0
			}
		}
		return 1
	case OpBOr:
		for _, x := range a {
			if e.Eval(x) != 0 {
				return 1
			}
		}
		return 0
	case OpBXor:
		v := n.K
		for _, x := range a {
			v ^= e.Eval(x)
		}
		return v & 1
	case OpBit:
		return (e.Eval(a[0]) >> n.K) & 1
	}
	panic(fmt.Sprintf("term: eval of op %d", n.Op))
}

// ------------------------------------------------------------------ printing

// Printer emits SMT-LIB2 definitions incrementally; each shared node becomes a
// define-fun exactly once per Printer.
type Printer struct {
	b        *B
	sb       *strings.Builder
	done     map[int]bool
	Vars     []*Node // variables declared
	apps     map[string][]*Node
	appVars  map[int]string
	declared map[string]bool
	log      []printLog
}

type printLog struct {
	kind byte // 'n' node defined, 'v' variable declared, 'a' application declared
	id   int
	name string
}

// Mark returns a position to which Rollback can return (for solvers with push/pop scopes).
func (p *Printer) Mark() int { return len(p.log) }

// Rollback forgets every definition made since the mark.
func (p *Printer) Rollback(mark int) {
	for i := len(p.log) - 1; i >= mark; i-- {
		e := p.log[i]
		delete(p.done, e.id)
		switch e.kind {
		case 'v':
			delete(p.declared, e.name)
			p.Vars = p.Vars[:len(p.Vars)-1]
		case 'a':
			l := p.apps[e.name]
			p.apps[e.name] = l[:len(l)-1]
			delete(p.appVars, e.id)
		}
	}
	p.log = p.log[:mark]
}

func NewPrinter(b *B, sb *strings.Builder) *Printer {
	return &Printer{b: b, sb: sb, done: map[int]bool{}, apps: map[string][]*Node{}, appVars: map[int]string{}, declared: map[string]bool{}}
}

func sortStr(w int) string {
	if w == 0 {
		return "Bool"
	}
	return fmt.Sprintf("(_ BitVec %d)", w)
}

func constStr(n *Node) string {
	if n.W == 0 {
		if n.K != 0 {
			return "true"
		}
		return "false"
	}
	if n.W%4 == 0 {
		return fmt.Sprintf("#x%0*x", n.W/4, n.K)
	}
	return fmt.Sprintf("#b%0*b", n.W, n.K)
}

func (p *Printer) ref(n *Node) string {
	if n.Op == OpConst {
		return constStr(n)
	}
	if n.Op == OpVar {
		return "|" + n.Name + "|"
	}
	if n.Op == OpApp {
		return p.appVars[n.ID]
	}
	return fmt.Sprintf("n%d", n.ID)
}

// Define makes sure n (and everything below it) is defined and returns its reference.
func (p *Printer) Define(root *Node) string {
	// iterative post-order to avoid deep recursion
	type fr struct {
		n *Node
		i int
	}
	stack := []fr{{root, 0}}
	for len(stack) > 0 {
		f := &stack[len(stack)-1]
		n := f.n
		if p.done[n.ID] || n.Op == OpConst {
			stack = stack[:len(stack)-1]
			continue
		}
		if f.i < len(n.Args) {
			c := n.Args[f.i]
			f.i++
			if !p.done[c.ID] && c.Op != OpConst {
				stack = append(stack, fr{c, 0})
			}
			continue
		}
		p.emit(n)
		if !p.done[n.ID] {
			p.done[n.ID] = true
			p.log = append(p.log, printLog{kind: 'n', id: n.ID})
		}
		stack = stack[:len(stack)-1]
	}
	return p.ref(root)
}

func (p *Printer) emit(n *Node) {
	sb := p.sb
	switch n.Op {
	case OpVar:
		if p.declared[n.Name] {
			return // a view of an already declared variable
		}
		p.declared[n.Name] = true
		fmt.Fprintf(sb, "(declare-const |%s| %s)\n", n.Name, sortStr(n.W))
		p.Vars = append(p.Vars, n)
		p.log = append(p.log, printLog{kind: 'v', id: n.ID, name: n.Name})
		if rc := p.b.RangeConstraint(n); rc != nil {
			p.done[n.ID] = true
			fmt.Fprintf(sb, "(assert %s)\n", p.Define(rc))
		}
		return
	case OpApp:
		// Ackermann expansion: a fresh constant per application plus
		// functional-consistency constraints against earlier applications.
		name := fmt.Sprintf("app%d!%s", n.ID, n.Name)
		p.appVars[n.ID] = "|" + name + "|"
		fmt.Fprintf(sb, "(declare-const |%s| %s)\n", name, sortStr(n.W))
		for _, o := range p.apps[n.Name] {
			var eqs []string
			for i := range n.Args {
				eqs = append(eqs, fmt.Sprintf("(= %s %s)", p.ref(n.Args[i]), p.ref(o.Args[i])))
			}
			cond := "true"
			if len(eqs) == 1 {
				cond = eqs[0]
			} else if len(eqs) > 1 {
				cond = "(and " + strings.Join(eqs, " ") + ")"
			}
			fmt.Fprintf(sb, "(assert (=> %s (= |%s| %s)))\n", cond, name, p.appVars[o.ID])
		}
		p.apps[n.Name] = append(p.apps[n.Name], n)
		p.log = append(p.log, printLog{kind: 'a', id: n.ID, name: n.Name})
		return
	}
	fmt.Fprintf(sb, "(define-fun n%d () %s ", n.ID, sortStr(n.W))
	a := n.Args
	switch n.Op {
	case OpNot, OpNeg:
		fmt.Fprintf(sb, "(%s %s)", opNames[n.Op], p.ref(a[0]))
	case OpExtract:
		fmt.Fprintf(sb, "((_ extract %d %d) %s)", n.K, n.K2, p.ref(a[0]))
	case OpZExt:
		fmt.Fprintf(sb, "((_ zero_extend %d) %s)", n.W-a[0].W, p.ref(a[0]))
	case OpSExt:
		fmt.Fprintf(sb, "((_ sign_extend %d) %s)", n.W-a[0].W, p.ref(a[0]))
	case OpIte:
		fmt.Fprintf(sb, "(ite %s %s %s)", p.ref(a[0]), p.ref(a[1]), p.ref(a[2]))
	case OpB2V:
		fmt.Fprintf(sb, "(ite %s %s %s)", p.ref(a[0]), constStr(&Node{W: n.W, K: 1}), constStr(&Node{W: n.W, K: 0}))
	case OpBXor:
		s := p.ref(a[0])
		for _, x := range a[1:] {
			s = fmt.Sprintf("(xor %s %s)", s, p.ref(x))
		}
		if n.K != 0 {
			s = "(not " + s + ")"
		}
		sb.WriteString(s)
	case OpBit:
		fmt.Fprintf(sb, "(= ((_ extract %d %d) %s) #b1)", n.K, n.K, p.ref(a[0]))
	default:
		nm, ok := opNames[n.Op]
		if !ok {
			panic(fmt.Sprintf("term: print of op %d", n.Op))
		}
		sb.WriteString("(" + nm)
		for _, x := range a {
			sb.WriteString(" " + p.ref(x))
		}
		sb.WriteString(")")
	}
	sb.WriteString(")\n")
}

// AppArgRefs lists, for model extraction, every application printed so far.
func (p *Printer) AppsPrinted() []*Node {
	var out []*Node
	for _, l := range p.apps {
		out = append(out, l...)
	}
	sort.Slice(out, func(i, j int) bool { return out[i].ID < out[j].ID })
	return out
}

// AppRef returns the SMT name of the constant standing for application n.
func (p *Printer) AppRef(n *Node) string { return p.appVars[n.ID] }
