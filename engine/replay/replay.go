// Package replay runs harness functions natively (real compiler, real code)
// on concrete inputs taken from solver models.
package replay

import (
	"bytes"
	"context"
	"encoding/json"
	"fmt"
	"os"
	osexec "os/exec"
	"path/filepath"
	"regexp"
	"sort"
	"strings"
	"time"

	"vpengine/exec"
)

// Case is one native execution of a harness.
type Case struct {
	ID      string                       `json:"id"`
	Pkg     string                       `json:"pkg"`
	Harness string                       `json:"harness"`
	Config  map[string]int               `json:"config"`
	Inputs  map[string]uint64            `json:"inputs"`
	UF      map[string]map[string]uint64 `json:"uf,omitempty"`
	// informational
	Property string `json:"property,omitempty"`
	Label    string `json:"label,omitempty"`
	Kind     string `json:"kind,omitempty"`
	Pos      string `json:"pos,omitempty"`
}

// Outcome of a native run.
type Outcome struct {
	Case   *Case
	Status string // ok, assert-failed, panic, hang, leak, assume-violated, error
	Detail string
}

func (o Outcome) Fails() bool {
	switch o.Status {
	case "assert-failed", "panic", "hang", "leak":
		return true
	}
	return false
}

// Runner owns a scratch copy of the repository with native harness bodies.
type Runner struct {
	Scratch string
	repo    string
	harness string
	ready   bool
	// Dropped lists harness files (relative to the tree root) to leave out because they do not
	// compile against this tree (see exec.LoadTolerant).
	Dropped []string
	bins    map[string]string // package -> compiled test binary
}

func NewRunner(repo, harnessDir string) *Runner {
	return &Runner{repo: repo, harness: harnessDir}
}

func (r *Runner) Close() {
	if r.Scratch != "" {
		os.RemoveAll(r.Scratch)
	}
}

var harnessRe = regexp.MustCompile(`(?m)^func (VP_\w+)\(\)`)

func (r *Runner) prepare() error {
	if r.ready {
		return nil
	}
	dir, err := os.MkdirTemp("", "vp-native-")
	if err != nil {
		return err
	}
	r.Scratch = dir
	if err := exec.CopyTree(r.repo, dir); err != nil {
		return err
	}
	pkgs, err := exec.InstallHarness(r.harness, dir, true)
	if err != nil {
		return err
	}
	for _, f := range r.Dropped {
		os.Remove(filepath.Join(dir, f))
	}
	// harness files that do not compile against this tree (a refactored source) are left out, as
	// exec.LoadTolerant does for the symbolic side
	for round := 0; round < 8; round++ {
		cmd := osexec.Command("go", "build", "-gcflags=-e", "./...")
		cmd.Dir = dir
		cmd.Env = append(os.Environ(), "GOFLAGS=-mod=mod", "GOPROXY=off", "GOSUMDB=off", "GOTOOLCHAIN=local", "GOWORK=off")
		out, err := cmd.CombinedOutput()
		if err == nil {
			break
		}
		removed := false
		for _, line := range strings.Split(string(out), "\n") {
			i := strings.Index(line, ".go:")
			if i < 0 {
				continue
			}
			f := strings.TrimSpace(line[:i+3])
			if base := filepath.Base(f); strings.HasPrefix(base, "zz_vp_") && base != "zz_vp_api.go" {
				if os.Remove(filepath.Join(dir, f)) == nil {
					r.Dropped = append(r.Dropped, f)
					removed = true
				}
			}
		}
		if !removed {
			break // the tree itself does not build: the test run below reports it
		}
	}
	for _, rel := range pkgs {
		pdir := filepath.Join(dir, rel)
		ents, _ := os.ReadDir(pdir)
		var names []string
		pkgName := ""
		for _, e := range ents {
			if !strings.HasPrefix(e.Name(), "zz_vp_") || !strings.HasSuffix(e.Name(), ".go") {
				continue
			}
			src, _ := os.ReadFile(filepath.Join(pdir, e.Name()))
			for _, m := range harnessRe.FindAllStringSubmatch(string(src), -1) {
				names = append(names, m[1])
			}
			if pkgName == "" {
				for _, line := range strings.Split(string(src), "\n") {
					if strings.HasPrefix(line, "package ") {
						pkgName = strings.Fields(line)[1]
						break
					}
				}
			}
		}
		sort.Strings(names)
		var sb strings.Builder
		fmt.Fprintf(&sb, "package %s\n\nimport (\n\t\"encoding/json\"\n\t\"fmt\"\n\t\"os\"\n\t\"runtime\"\n\t\"testing\"\n\t\"time\"\n)\n\n", pkgName)
		sb.WriteString("var vpHarnesses = map[string]func(){\n")
		for _, n := range names {
			fmt.Fprintf(&sb, "\t%q: %s,\n", n, n)
		}
		sb.WriteString("}\n\n")
		sb.WriteString(`func TestVPReplay(t *testing.T) {
	raw, err := os.ReadFile(os.Getenv("VP_REPLAY_CASES"))
	if err != nil {
		t.Fatal(err)
	}
	var cases []json.RawMessage
	if err := json.Unmarshal(raw, &cases); err != nil {
		t.Fatal(err)
	}
	dir := t.TempDir()
	for i, rc := range cases {
		var c struct {
			ID      string ` + "`json:\"id\"`" + `
			Harness string ` + "`json:\"harness\"`" + `
		}
		json.Unmarshal(rc, &c)
		caseFile := fmt.Sprintf("%s/case%d.json", dir, i)
		failFile := fmt.Sprintf("%s/fail%d.txt", dir, i)
		os.WriteFile(caseFile, rc, 0o644)
		os.Setenv("VP_REPLAY_JSON", caseFile)
		os.Setenv("VP_REPLAY_FAIL", failFile)
		os.Setenv("VP_REPLAY_SEQ", fmt.Sprint(i+1))
		h := vpHarnesses[c.Harness]
		if h == nil {
			fmt.Printf("VP-REPLAY: %s error unknown harness %s\n", c.ID, c.Harness)
			continue
		}
		before := runtime.NumGoroutine()
		fmt.Printf("VP-REPLAY-START: %s\n", c.ID)
		status := func() (s string) {
			defer func() {
				if r := recover(); r != nil {
					if r == "vp-assume-violated" {
						s = "assume-violated"
						return
					}
					s = fmt.Sprintf("panic %v", r)
				}
			}()
			h()
			if fails, err := os.ReadFile(failFile); err == nil && len(fails) > 0 {
				return fmt.Sprintf("assert-failed %q", string(fails))
			}
			return "ok"
		}()
		if status == "ok" {
			leaked := true
			for k := 0; k < 40; k++ {
				if runtime.NumGoroutine() <= before {
					leaked = false
					break
				}
				time.Sleep(5 * time.Millisecond)
			}
			if leaked {
				status = fmt.Sprintf("leak %d goroutines still alive", runtime.NumGoroutine()-before)
			}
		}
		fmt.Printf("VP-REPLAY: %s %s\n", c.ID, status)
	}
}
`)
		if err := os.WriteFile(filepath.Join(pdir, "zz_vp_replay_test.go"), []byte(sb.String()), 0o644); err != nil {
			return err
		}
	}
	r.ready = true
	return nil
}

// Run executes the cases natively: one test binary per package, one fresh process per case (the
// symbolic executor starts every instance from freshly initialised package state, and so must the
// replay: process-wide caches would otherwise carry history from one case into the next).
func (r *Runner) Run(cases []*Case, perCaseTimeout time.Duration) ([]Outcome, error) {
	if len(cases) == 0 {
		return nil, nil
	}
	if err := r.prepare(); err != nil {
		return nil, err
	}
	if r.bins == nil {
		r.bins = map[string]string{}
	}
	for _, c := range cases {
		if _, ok := r.bins[c.Pkg]; ok {
			continue
		}
		target := "./" + c.Pkg
		if c.Pkg == "." || c.Pkg == "" {
			target = "."
		}
		bin := filepath.Join(r.Scratch, fmt.Sprintf("zz_vp_replay_%d.test", len(r.bins)))
		cmd := osexec.Command("go", "test", "-vet=off", "-c", "-o", bin, target)
		cmd.Dir = r.Scratch
		cmd.Env = append(os.Environ(), "GOFLAGS=-mod=mod", "GOPROXY=off", "GOSUMDB=off", "GOTOOLCHAIN=local")
		if out, err := cmd.CombinedOutput(); err != nil {
			return nil, fmt.Errorf("native replay of package %s did not build: %v\n%s", c.Pkg, err, lastLines(string(out), 30))
		}
		r.bins[c.Pkg] = bin
	}
	out := make([]Outcome, len(cases))
	sem := make(chan struct{}, 8)
	done := make(chan struct{})
	for i := range cases {
		go func(i int) {
			sem <- struct{}{}
			out[i] = r.runOne(cases[i], perCaseTimeout)
			<-sem
			done <- struct{}{}
		}(i)
	}
	for range cases {
		<-done
	}
	return out, nil
}

// runOne runs one case in its own process.
func (r *Runner) runOne(c *Case, timeout time.Duration) Outcome {
	type jc struct {
		ID      string                       `json:"id"`
		Harness string                       `json:"harness"`
		Config  map[string]int               `json:"config"`
		Inputs  map[string]uint64            `json:"inputs"`
		UF      map[string]map[string]uint64 `json:"uf"`
	}
	f, err := os.CreateTemp("", "vp-cases-*.json")
	if err != nil {
		return Outcome{Case: c, Status: "error", Detail: err.Error()}
	}
	defer os.Remove(f.Name())
	json.NewEncoder(f).Encode([]jc{{"case0", c.Harness, c.Config, c.Inputs, c.UF}})
	f.Close()
	ctx, cancel := context.WithTimeout(context.Background(), timeout)
	defer cancel()
	dir := r.Scratch
	if c.Pkg != "." && c.Pkg != "" {
		dir = filepath.Join(r.Scratch, c.Pkg)
	}
	cmd := osexec.CommandContext(ctx, r.bins[c.Pkg], "-test.run", "^TestVPReplay$", "-test.v", "-test.timeout", "0")
	cmd.Dir = dir
	cmd.Env = append(os.Environ(), "VP_REPLAY_CASES="+f.Name())
	var buf bytes.Buffer
	cmd.Stdout = &buf
	cmd.Stderr = &buf
	cmd.Run()
	text := buf.String()
	for _, line := range strings.Split(text, "\n") {
		line = strings.TrimSpace(line)
		if strings.HasPrefix(line, "VP-REPLAY: case0 ") {
			status := strings.TrimPrefix(line, "VP-REPLAY: case0 ")
			o := Outcome{Case: c}
			fields := strings.SplitN(status, " ", 2)
			o.Status = fields[0]
			if len(fields) > 1 {
				o.Detail = fields[1]
			}
			return o
		}
	}
	if ctx.Err() != nil {
		return Outcome{Case: c, Status: "hang", Detail: fmt.Sprintf("no result within %s", timeout)}
	}
	return Outcome{Case: c, Status: "panic", Detail: "test process died: " + lastLines(text, 12)}
}

func lastLines(s string, n int) string {
	ls := strings.Split(strings.TrimSpace(s), "\n")
	if len(ls) > n {
		ls = ls[len(ls)-n:]
	}
	return strings.Join(ls, " | ")
}
