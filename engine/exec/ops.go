package exec

import (
	"fmt"
	"go/token"
	"go/types"
	"math"
	"sort"

	"golang.org/x/tools/go/ssa"

	"vpengine/term"
)

// ---------------------------------------------------------------- load / store

func (st *State) load(addr Value, t types.Type) Value {
	switch p := addr.(type) {
	case Ptr:
		if p.Obj == nil {
			st.certainPanic("nil pointer dereference")
		}
		n := st.sizeOf(t)
		if p.Off < 0 || p.Off+n > len(p.Obj.Cells) {
			panic(st.unsupported(fmt.Sprintf("internal: load of %d cells at %d from object of %d", n, p.Off, len(p.Obj.Cells))))
		}
		v, _ := st.unflatten(t, p.Obj.Cells[p.Off:p.Off+n])
		if nd, ok := v.(*term.Node); ok && nd.Op == term.OpVar && len(st.subst) > 0 {
			if c, bound := st.subst[nd]; bound {
				return c
			}
		}
		return v
	case SymPtr:
		lo, hi := st.idxRange(p.Idx, p.N)
		n := st.sizeOf(t)
		vals := make([]Value, 0, hi-lo+1)
		allNodes := n == 1
		for i := lo; i <= hi; i++ {
			off := p.Base + i*p.ES + p.Sub
			v, _ := st.unflatten(t, p.Obj.Cells[off:off+n])
			if _, ok := v.(*term.Node); !ok {
				allNodes = false
			}
			vals = append(vals, v)
		}
		if allNodes {
			tab := make([]*term.Node, len(vals))
			for i, v := range vals {
				tab[i] = v.(*term.Node)
			}
			return st.b.Mux(p.Idx, uint64(lo), tab)
		}
		gs := make([]*term.Node, len(vals))
		for i := range vals {
			gs[i] = st.b.Eq(p.Idx, st.b.Const(64, uint64(lo+i)))
		}
		if _, isPtr := t.Underlying().(*types.Pointer); isPtr {
			// a pointer selected by a symbolic index: follow each feasible target on its own path
			// (a guarded pointer would turn every later access into an n-way case split)
			k := st.choose(gs)
			return vals[k]
		}
		return st.muxValues(gs, vals)
	case Mux:
		return st.mapMux(p, func(a Value) Value { return st.load(a, t) })
	}
	panic(st.unsupported(fmt.Sprintf("load through %T", addr)))
}

// idxRange intersects the interval of a (bounds-checked) index with [0,n).
func (st *State) idxRange(idx *term.Node, n int) (int, int) {
	lo, hi := 0, n-1
	if idx.SLo > int64(lo) {
		lo = int(idx.SLo)
	}
	if idx.SHi < int64(hi) {
		hi = int(idx.SHi)
	}
	if idx.ULo > uint64(lo) && idx.ULo < uint64(n) {
		lo = int(idx.ULo)
	}
	if idx.UHi < uint64(hi) {
		hi = int(idx.UHi)
	}
	if lo > hi {
		panic(pathEnd{"infeasible"})
	}
	return lo, hi
}

func (st *State) store(addr Value, t types.Type, v Value) {
	switch p := addr.(type) {
	case Ptr:
		if p.Obj == nil {
			st.certainPanic("nil pointer dereference")
		}
		cells := st.flatten(t, v, nil)
		for i, c := range cells {
			st.write(p.Obj, p.Off+i, c)
		}
	case SymPtr:
		lo, hi := st.idxRange(p.Idx, p.N)
		cells := st.flatten(t, v, nil)
		for i := lo; i <= hi; i++ {
			g := st.b.Eq(p.Idx, st.b.Const(64, uint64(i)))
			for j, c := range cells {
				off := p.Base + i*p.ES + p.Sub + j
				nv, ok := st.mergeValues(g, c, p.Obj.Cells[off])
				if !ok {
					panic(st.unsupported("store of unmergeable value through symbolic pointer"))
				}
				st.write(p.Obj, off, nv)
			}
		}
	case Mux:
		st.forEachAlt(p, func(i int, a Value) {
			cur := st.load(a, t)
			nv, ok := st.mergeValues(p.G[i], v, cur)
			if !ok {
				panic(st.unsupported("store of unmergeable value through guarded pointer"))
			}
			st.store(a, t, nv)
		})
	default:
		panic(st.unsupported(fmt.Sprintf("store through %T", addr)))
	}
}

// mapMux applies f to every alternative of a (possibly) guarded value.
func (st *State) mapMux(v Value, f func(Value) Value) Value {
	mx, ok := v.(Mux)
	if !ok {
		return f(v)
	}
	var gs []*term.Node
	var vals []Value
	st.forEachAlt(mx, func(i int, a Value) {
		r := f(a)
		gs = append(gs, mx.G[i])
		vals = append(vals, r)
	})
	if len(vals) == 0 {
		// every alternative panics: each dropped alternative pushed the negation of its guard,
		// so the path condition is contradictory now
		panic(pathEnd{"panic"})
	}
	return st.muxValues(gs, vals)
}

// forEachAlt runs f for every alternative with the alternative's guard in
// force (obligations and panics inside f are conditional on it).
func (st *State) forEachAlt(mx Mux, f func(i int, a Value)) {
	saved := st.guard
	defer func() { st.guard = saved }()
	for i, a := range mx.V {
		g := mx.G[i]
		if saved != nil {
			g = st.b.BAnd(saved, g)
		}
		if g == st.b.False || st.refuted(mx.G[i]) {
			continue
		}
		st.guard = g
		func() {
			defer func() {
				if e := recover(); e != nil {
					if _, isDrop := e.(altDropped); isDrop {
						return
					}
					panic(e)
				}
			}()
			f(i, a)
		}()
	}
}

// demux forks over the alternatives of a guarded value.
func (st *State) demux(v Value) Value {
	for {
		mx, ok := v.(Mux)
		if !ok {
			return v
		}
		k := st.choose(mx.G)
		v = mx.V[k]
	}
}

// ---------------------------------------------------------------- integer helpers

func (st *State) toInt64(v Value, t types.Type) *term.Node {
	n, ok := v.(*term.Node)
	if !ok {
		panic(st.unsupported(fmt.Sprintf("integer expected, got %T", v)))
	}
	w, signed, _ := intType(t)
	if w == 64 {
		return n
	}
	if w == 0 {
		panic(st.unsupported("bool used as integer"))
	}
	if signed {
		return st.b.SExt(n, 64)
	}
	return st.b.ZExt(n, 64)
}

func (st *State) concInt(v Value, t types.Type, what string) int {
	n := st.toInt64(v, t)
	if c, ok := n.ConstVal(); ok {
		return int(int64(c))
	}
	return int(int64(st.concretize(n, what)))
}

// shiftAmount converts a shift count of type t into a term of width w saturating at w.
func (st *State) shiftAmount(v Value, t types.Type, w int) *term.Node {
	n := v.(*term.Node)
	aw, signed, _ := intType(t)
	if c, ok := n.ConstVal(); ok {
		if signed && int64(c<<(64-uint(aw)))>>(64-uint(aw)) < 0 {
			st.certainPanic("negative shift amount")
		}
		if c >= uint64(w) {
			c = uint64(w)
		}
		return st.b.Const(w, c)
	}
	if signed {
		st.panicIf(st.b.Slt(n, st.b.Const(aw, 0)), "negative shift amount")
	}
	big := st.b.Ule(st.b.Const(aw, uint64(w)), n)
	var tr *term.Node
	if aw >= w {
		tr = st.b.Extract(n, w-1, 0)
	} else {
		tr = st.b.ZExt(n, w)
	}
	return st.b.Ite(big, st.b.Const(w, uint64(w)), tr)
}

func (st *State) binop(op token.Token, t types.Type, x, y Value, yt types.Type) Value {
	// guarded operands
	if mx, ok := x.(Mux); ok {
		return st.mapMux(mx, func(a Value) Value { return st.binop(op, t, a, y, yt) })
	}
	if my, ok := y.(Mux); ok {
		return st.mapMux(my, func(a Value) Value { return st.binop(op, t, x, a, yt) })
	}
	switch op {
	case token.EQL:
		return st.valuesEq(x, y)
	case token.NEQ:
		return st.b.BNot(st.valuesEq(x, y))
	}
	if isString(t) {
		xs, ys := x.(Str), y.(Str)
		switch op {
		case token.ADD:
			return Str{B: append(append([]*term.Node(nil), xs.B...), ys.B...)}
		case token.LSS, token.LEQ, token.GTR, token.GEQ:
			a, oka := st.strConcrete(xs)
			c, okc := st.strConcrete(ys)
			if !oka || !okc {
				panic(st.unsupported("ordering comparison of symbolic strings"))
			}
			switch op {
			case token.LSS:
				return st.b.Bool(a < c)
			case token.LEQ:
				return st.b.Bool(a <= c)
			case token.GTR:
				return st.b.Bool(a > c)
			default:
				return st.b.Bool(a >= c)
			}
		}
	}
	if isFloat(t) {
		return st.floatBinop(op, x, y)
	}
	w, signed, ok := intType(t)
	if !ok {
		panic(st.unsupported("binary operator " + op.String() + " on " + t.String()))
	}
	a, okA := x.(*term.Node)
	c, okC := y.(*term.Node)
	if !okA || !okC {
		panic(st.unsupported(fmt.Sprintf("binary operator %s on %T, %T", op, x, y)))
	}
	b := st.b
	if w == 0 { // bool operands (only == and != reach here, handled above) or comparisons result
		panic(st.unsupported("boolean binary operator " + op.String()))
	}
	switch op {
	case token.ADD:
		return b.Add(a, c)
	case token.SUB:
		return b.Sub(a, c)
	case token.MUL:
		return b.Mul(a, c)
	case token.QUO:
		st.panicIf(b.Eq(c, b.Const(w, 0)), "integer divide by zero")
		if signed {
			return b.SDiv(a, c)
		}
		return b.UDiv(a, c)
	case token.REM:
		st.panicIf(b.Eq(c, b.Const(w, 0)), "integer divide by zero")
		if signed {
			return b.SRem(a, c)
		}
		return b.URem(a, c)
	case token.AND:
		return b.And(a, c)
	case token.OR:
		return b.Or(a, c)
	case token.XOR:
		return b.Xor(a, c)
	case token.AND_NOT:
		return b.And(a, b.Not(c))
	case token.SHL:
		return b.Shl(a, st.shiftAmount(c, yt, w))
	case token.SHR:
		s := st.shiftAmount(c, yt, w)
		if signed {
			return b.AShr(a, s)
		}
		return b.LShr(a, s)
	case token.LSS:
		if signed {
			return b.Slt(a, c)
		}
		return b.Ult(a, c)
	case token.LEQ:
		if signed {
			return b.Sle(a, c)
		}
		return b.Ule(a, c)
	case token.GTR:
		if signed {
			return b.Slt(c, a)
		}
		return b.Ult(c, a)
	case token.GEQ:
		if signed {
			return b.Sle(c, a)
		}
		return b.Ule(c, a)
	}
	panic(st.unsupported("binary operator " + op.String()))
}

func (st *State) floatBinop(op token.Token, x, y Value) Value {
	fx, okx := x.(Float)
	fy, oky := y.(Float)
	if okx && oky {
		a, c := fx.F, fy.F
		switch op {
		case token.ADD:
			return Float{a + c}
		case token.SUB:
			return Float{a - c}
		case token.MUL:
			return Float{a * c}
		case token.QUO:
			return Float{a / c}
		case token.LSS:
			return st.b.Bool(a < c)
		case token.LEQ:
			return st.b.Bool(a <= c)
		case token.GTR:
			return st.b.Bool(a > c)
		case token.GEQ:
			return st.b.Bool(a >= c)
		}
		panic(st.unsupported("float operator " + op.String()))
	}
	// exact-rational abstraction: only division of two integer-valued operands
	rx, okx := st.asRat(x)
	ry, oky := st.asRat(y)
	if okx && oky && op == token.QUO && len(rx.N) == 1 && len(ry.N) == 1 {
		b := st.b
		one := b.Const(64, 1)
		if rx.D[0] != one || ry.D[0] != one {
			panic(st.unsupported("nested rational float division"))
		}
		return RatF{N: []*term.Node{rx.N[0]}, D: []*term.Node{ry.N[0]}}
	}
	panic(st.unsupported(fmt.Sprintf("float operator %s on symbolic operands", op)))
}

func (st *State) asRat(v Value) (RatF, bool) {
	switch x := v.(type) {
	case RatF:
		return x, true
	case Float:
		if x.F == math.Trunc(x.F) && math.Abs(x.F) < 1<<52 {
			return RatF{N: []*term.Node{st.b.Const(64, uint64(int64(x.F)))}, D: []*term.Node{st.b.Const(64, 1)}}, true
		}
	}
	return RatF{}, false
}

// valuesEq returns the Boolean term for a == b.
func (st *State) valuesEq(a, b Value) *term.Node {
	B := st.b
	if mx, ok := a.(Mux); ok {
		var parts []*term.Node
		for i, v := range mx.V {
			parts = append(parts, B.BAnd(mx.G[i], st.valuesEq(v, b)))
		}
		return B.BOr(parts...)
	}
	if _, ok := b.(Mux); ok {
		return st.valuesEq(b, a)
	}
	switch x := a.(type) {
	case *term.Node:
		y, ok := b.(*term.Node)
		if !ok {
			panic(st.unsupported(fmt.Sprintf("comparison of integer with %T", b)))
		}
		return B.Eq(x, y)
	case Ptr:
		switch y := b.(type) {
		case Ptr:
			return B.Bool(x == y)
		case SymPtr:
			return st.valuesEq(y, x)
		}
	case SymPtr:
		switch y := b.(type) {
		case Ptr:
			if y.Obj != x.Obj || x.ES == 0 {
				return B.False
			}
			d := y.Off - x.Base - x.Sub
			if d < 0 || d%x.ES != 0 || d/x.ES >= x.N {
				return B.False
			}
			return B.Eq(x.Idx, B.Const(64, uint64(d/x.ES)))
		case SymPtr:
			if y.Obj != x.Obj || y.Base != x.Base || y.ES != x.ES || y.Sub != x.Sub {
				panic(st.unsupported("comparison of unrelated symbolic pointers"))
			}
			return B.Eq(x.Idx, y.Idx)
		}
	case Slice:
		if y, ok := b.(Slice); ok && (x.Obj == nil || y.Obj == nil) {
			return B.Bool(x.Obj == nil && y.Obj == nil)
		}
	case Str:
		y, ok := b.(Str)
		if ok {
			if len(x.B) != len(y.B) {
				return B.False
			}
			var parts []*term.Node
			for i := range x.B {
				parts = append(parts, B.Eq(x.B[i], y.B[i]))
			}
			return B.BAnd(parts...)
		}
	case Float:
		if y, ok := b.(Float); ok {
			return B.Bool(x.F == y.F)
		}
	case Iface:
		y, ok := b.(Iface)
		if ok {
			if x.T == nil || y.T == nil {
				return B.Bool(x.T == nil && y.T == nil)
			}
			if !types.Identical(x.T, y.T) {
				return B.False
			}
			if !types.Comparable(x.T) {
				st.certainPanic("comparing uncomparable type " + x.T.String())
			}
			return st.valuesEq(x.V, y.V)
		}
	case Agg:
		y, ok := b.(Agg)
		if ok && len(x) == len(y) {
			var parts []*term.Node
			for i := range x {
				parts = append(parts, st.valuesEq(x[i], y[i]))
			}
			return B.BAnd(parts...)
		}
	case *Closure:
		if y, ok := b.(*Closure); ok && (x == nil || y == nil) {
			return B.Bool(x == nil && y == nil)
		}
	case *MapObj:
		if y, ok := b.(*MapObj); ok {
			return B.Bool(x == y)
		}
	case *ChanObj:
		if y, ok := b.(*ChanObj); ok {
			return B.Bool(x == y)
		}
	}
	panic(st.unsupported(fmt.Sprintf("comparison of %T with %T", a, b)))
}

// ---------------------------------------------------------------- value instructions

func (st *State) evalValue(fr *Frame, instr ssa.Value) Value {
	b := st.b
	switch in := instr.(type) {
	case *ssa.Alloc:
		t := in.Type().(*types.Pointer).Elem()
		return Ptr{Obj: st.allocZero(t)}
	case *ssa.BinOp:
		return st.binop(in.Op, in.X.Type(), st.get(fr, in.X), st.get(fr, in.Y), in.Y.Type())
	case *ssa.UnOp:
		x := st.get(fr, in.X)
		switch in.Op {
		case token.MUL:
			return st.load(x, in.Type())
		case token.ARROW:
			return st.execRecv(fr, in, x)
		case token.NOT:
			return st.mapMux(x, func(v Value) Value { return b.BNot(v.(*term.Node)) })
		case token.SUB:
			if f, ok := x.(Float); ok {
				return Float{-f.F}
			}
			return b.Neg(x.(*term.Node))
		case token.XOR:
			return b.Not(x.(*term.Node))
		}
		panic(st.unsupported("unary operator " + in.Op.String()))
	case *ssa.Convert:
		return st.convert(st.get(fr, in.X), in.X.Type(), in.Type())
	case *ssa.ChangeType:
		return st.get(fr, in.X)
	case *ssa.ChangeInterface:
		return st.get(fr, in.X)
	case *ssa.MakeInterface:
		return Iface{T: in.X.Type(), V: st.get(fr, in.X)}
	case *ssa.TypeAssert:
		return st.typeAssert(fr, in)
	case *ssa.Extract:
		return st.get(fr, in.Tuple).(Agg)[in.Index]
	case *ssa.Field:
		x := st.get(fr, in.X)
		return st.mapMux(x, func(v Value) Value { return v.(Agg)[in.Field] })
	case *ssa.FieldAddr:
		x := st.get(fr, in.X)
		stt := in.X.Type().Underlying().(*types.Pointer).Elem().Underlying().(*types.Struct)
		off := st.fieldOffset(stt, in.Field)
		return st.mapMux(x, func(v Value) Value {
			switch p := v.(type) {
			case Ptr:
				if p.Obj == nil {
					st.certainPanic("nil pointer dereference (field address)")
				}
				return Ptr{p.Obj, p.Off + off}
			case SymPtr:
				p.Sub += off
				return p
			}
			panic(st.unsupported(fmt.Sprintf("field address of %T", v)))
		})
	case *ssa.IndexAddr:
		return st.indexAddr(fr, in)
	case *ssa.Index:
		idx := st.toInt64(st.get(fr, in.Index), in.Index.Type())
		return st.mapMux(st.get(fr, in.X), func(x Value) Value {
			if s, ok := x.(Str); ok {
				return st.strIndex(s, idx)
			}
			arr := x.(Agg)
			if c, ok := idx.ConstVal(); ok {
				if int64(c) < 0 || int64(c) >= int64(len(arr)) {
					st.certainPanic("index out of range")
				}
				return arr[c]
			}
			st.panicIf(b.Ule(b.Const(64, uint64(len(arr))), idx), "index out of range")
			gs := make([]*term.Node, len(arr))
			for i := range arr {
				gs[i] = b.Eq(idx, b.Const(64, uint64(i)))
			}
			return st.muxValues(gs, arr)
		})
	case *ssa.Lookup:
		return st.lookup(fr, in)
	case *ssa.MakeMap:
		st.serial++
		mt := in.Type().Underlying().(*types.Map)
		return &MapObj{Serial: st.serial, KT: mt.Key(), VT: mt.Elem()}
	case *ssa.MakeChan:
		n := st.concInt(st.get(fr, in.Size), in.Size.Type(), "channel size")
		if n != 0 {
			panic(st.unsupported("buffered channel"))
		}
		st.serial++
		return &ChanObj{Serial: st.serial, ET: in.Type().Underlying().(*types.Chan).Elem()}
	case *ssa.MakeSlice:
		n := st.concInt(st.get(fr, in.Len), in.Len.Type(), "make length")
		c := st.concInt(st.get(fr, in.Cap), in.Cap.Type(), "make capacity")
		if n < 0 || c < n {
			st.certainPanic("makeslice: len out of range")
		}
		if c > 1<<24 {
			panic(st.unsupported(fmt.Sprintf("make of %d elements", c)))
		}
		et := in.Type().Underlying().(*types.Slice).Elem()
		return st.newSlice(et, n, c)
	case *ssa.MakeClosure:
		cl := &Closure{Fn: in.Fn.(*ssa.Function)}
		for _, bv := range in.Bindings {
			cl.Bindings = append(cl.Bindings, st.get(fr, bv))
		}
		return cl
	case *ssa.Slice:
		return st.sliceOp(fr, in)
	case *ssa.Range:
		x := st.demux(st.get(fr, in.X))
		switch v := x.(type) {
		case Str:
			return &RangeIter{Str: &v}
		case *MapObj:
			it := &RangeIter{Map: v}
			if v != nil {
				it.Keys = st.sortedKeyOrder(v)
			}
			return it
		}
		panic(st.unsupported(fmt.Sprintf("range over %T", x)))
	case *ssa.Next:
		return st.next(fr, in)
	}
	panic(st.unsupported(fmt.Sprintf("instruction %T", instr)))
}

func (st *State) newSlice(et types.Type, n, c int) Slice {
	es := st.sizeOf(et)
	o := st.newObject(c*es, types.NewSlice(et))
	z := st.flatten(et, st.zero(et), nil)
	for i := 0; i < c; i++ {
		copy(o.Cells[i*es:], z)
	}
	return Slice{Obj: o, Off: 0, Len: n, Cap: c, ES: es}
}

func (st *State) sortedKeyOrder(m *MapObj) []int {
	idx := make([]int, len(m.Keys))
	for i := range idx {
		idx[i] = i
	}
	less := func(a, b Value) bool {
		switch x := a.(type) {
		case *term.Node:
			y := b.(*term.Node)
			if x.W == 0 {
				return x.K < y.K
			}
			return x.SVal() < y.SVal()
		case Str:
			sa, _ := st.strConcrete(x)
			sb, _ := st.strConcrete(b.(Str))
			return sa < sb
		}
		return false
	}
	sort.SliceStable(idx, func(i, j int) bool {
		if st.mapDesc {
			return less(m.Keys[idx[j]], m.Keys[idx[i]])
		}
		return less(m.Keys[idx[i]], m.Keys[idx[j]])
	})
	return idx
}

func (st *State) next(fr *Frame, in *ssa.Next) Value {
	it := st.get(fr, in.Iter).(*RangeIter)
	b := st.b
	if in.IsString {
		s := it.Str
		if it.BPos >= len(s.B) {
			return Agg{b.False, b.Const(64, 0), b.Const(32, 0)}
		}
		r, size := st.decodeRune(s.B, it.BPos)
		// the iterator is shared state held in a register: replace it with an advanced copy
		pos := it.BPos
		ni := &RangeIter{Str: s, BPos: pos + size}
		st.set(fr, in.Iter, ni)
		return Agg{b.True, b.Const(64, uint64(pos)), r}
	}
	if it.Map == nil || it.Pos >= len(it.Keys) {
		return Agg{b.False, st.zeroOr(in.Type(), 1), st.zeroOr(in.Type(), 2)}
	}
	k := it.Keys[it.Pos]
	ni := &RangeIter{Map: it.Map, Keys: it.Keys, Pos: it.Pos + 1}
	st.set(fr, in.Iter, ni)
	return Agg{b.True, it.Map.Keys[k], it.Map.Vals[k]}
}

func (st *State) zeroOr(t types.Type, i int) Value {
	tt := t.(*types.Tuple).At(i).Type()
	if _, ok := tt.Underlying().(*types.Basic); ok && tt.Underlying().(*types.Basic).Kind() == types.Invalid {
		return st.b.Const(64, 0)
	}
	return st.zero(tt)
}

func (st *State) indexAddr(fr *Frame, in *ssa.IndexAddr) Value {
	x := st.get(fr, in.X)
	idx := st.toInt64(st.get(fr, in.Index), in.Index.Type())
	b := st.b
	return st.mapMux(x, func(v Value) Value {
		var obj *Object
		var base, n, es int
		switch p := v.(type) {
		case Slice:
			obj, base, n, es = p.Obj, p.Off, p.Len, p.ES
			if p.Obj == nil {
				n = 0
			}
		case Ptr:
			if p.Obj == nil {
				st.certainPanic("nil pointer dereference (index)")
			}
			at := in.X.Type().Underlying().(*types.Pointer).Elem().Underlying().(*types.Array)
			obj, base, n, es = p.Obj, p.Off, int(at.Len()), st.sizeOf(at.Elem())
		case SymPtr:
			// element of an array inside a symbolically indexed element: only a concrete inner index
			at := in.X.Type().Underlying().(*types.Pointer).Elem().Underlying().(*types.Array)
			c, ok := idx.ConstVal()
			if !ok {
				c = st.concretize(idx, "inner index below a symbolic index")
			}
			if int64(c) < 0 || int64(c) >= at.Len() {
				st.certainPanic(fmt.Sprintf("index out of range [%d] with length %d", int64(c), at.Len()))
			}
			p.Sub += int(c) * st.sizeOf(at.Elem())
			return p
		default:
			panic(st.unsupported(fmt.Sprintf("index address of %T", v)))
		}
		if c, ok := idx.ConstVal(); ok {
			if int64(c) < 0 || int64(c) >= int64(n) {
				st.certainPanic(fmt.Sprintf("index out of range [%d] with length %d", int64(c), n))
			}
			return Ptr{obj, base + int(c)*es}
		}
		if n == 0 {
			st.certainPanic("index out of range with length 0")
		}
		st.panicIf(b.Ule(b.Const(64, uint64(n)), idx), fmt.Sprintf("index out of range (length %d)", n))
		if n == 1 {
			return Ptr{obj, base}
		}
		return SymPtr{Obj: obj, Base: base, ES: es, N: n, Idx: idx}
	})
}

// sub applies the current variable bindings (constants / range views) to a scalar.
func (st *State) sub(n *term.Node) *term.Node {
	if n.Op == term.OpVar && len(st.subst) > 0 {
		if c, ok := st.subst[n]; ok {
			return c
		}
	}
	return n
}

func (st *State) strIndex(s Str, idx *term.Node) Value {
	b := st.b
	if c, ok := idx.ConstVal(); ok {
		if int64(c) < 0 || int64(c) >= int64(len(s.B)) {
			st.certainPanic("string index out of range")
		}
		return st.sub(s.B[c])
	}
	st.panicIf(b.Ule(b.Const(64, uint64(len(s.B))), idx), "string index out of range")
	lo, hi := st.idxRange(idx, len(s.B))
	return b.Mux(idx, uint64(lo), s.B[lo:hi+1])
}

func (st *State) lookup(fr *Frame, in *ssa.Lookup) Value {
	x := st.get(fr, in.X)
	key := st.get(fr, in.Index)
	b := st.b
	if s, ok := x.(Str); ok {
		return st.strIndex(s, st.toInt64(key, in.Index.Type()))
	}
	res := st.mapMux(x, func(xv Value) Value {
		m, ok := xv.(*MapObj)
		if !ok {
			panic(st.unsupported(fmt.Sprintf("lookup in %T", xv)))
		}
		vt := in.X.Type().Underlying().(*types.Map).Elem()
		zero := st.zero(vt)
		return st.mapMux(key, func(kv Value) Value {
			if m == nil || len(m.Keys) == 0 {
				return Agg{zero, b.False}
			}
			gs := make([]*term.Node, 0, len(m.Keys)+1)
			vs := make([]Value, 0, len(m.Keys)+1)
			var hit []*term.Node
			for i, k := range m.Keys {
				g := st.valuesEq(kv, k)
				if g == b.False {
					continue
				}
				if g == b.True {
					return Agg{m.Vals[i], b.True}
				}
				gs = append(gs, g)
				vs = append(vs, m.Vals[i])
				hit = append(hit, g)
			}
			okT := b.BOr(hit...)
			if kn, isNode := kv.(*term.Node); isNode && kn.UHi >= kn.ULo && kn.UHi-kn.ULo < 1024 {
				inRange := uint64(0)
				for _, k := range m.Keys {
					if kc, isC := k.(*term.Node); isC && kc.IsConst() && kc.K >= kn.ULo && kc.K <= kn.UHi {
						inRange++
					}
				}
				if inRange == kn.UHi-kn.ULo+1 && len(gs) > 0 {
					// every value the key can take is a (distinct) key of the map: no miss
					return Agg{st.muxValues(gs, vs), b.True}
				}
			}
			gs = append(gs, b.BNot(okT))
			vs = append(vs, zero)
			return Agg{st.muxValues(gs, vs), okT}
		})
	})
	a := res.(Agg)
	if in.CommaOk {
		return a
	}
	return a[0]
}

func (st *State) sliceOp(fr *Frame, in *ssa.Slice) Value {
	x := st.get(fr, in.X)
	bound := func(v ssa.Value, def int) int {
		if v == nil {
			return def
		}
		return st.concInt(st.get(fr, v), v.Type(), "slice bound")
	}
	return st.mapMux(x, func(v Value) Value {
		switch s := v.(type) {
		case Str:
			lo := bound(in.Low, 0)
			hi := bound(in.High, len(s.B))
			if lo < 0 || hi < lo || hi > len(s.B) {
				st.certainPanic(fmt.Sprintf("slice bounds out of range [%d:%d] with length %d", lo, hi, len(s.B)))
			}
			return Str{B: s.B[lo:hi]}
		case Slice:
			lo := bound(in.Low, 0)
			hi := bound(in.High, s.Len)
			mx := bound(in.Max, s.Cap)
			if lo < 0 || hi < lo || mx < hi || mx > s.Cap {
				st.certainPanic(fmt.Sprintf("slice bounds out of range [%d:%d:%d] with capacity %d", lo, hi, mx, s.Cap))
			}
			if s.Obj == nil {
				return s
			}
			return Slice{Obj: s.Obj, Off: s.Off + lo*s.ES, Len: hi - lo, Cap: mx - lo, ES: s.ES}
		case Ptr:
			if s.Obj == nil {
				st.certainPanic("nil pointer dereference (slice of array)")
			}
			at := in.X.Type().Underlying().(*types.Pointer).Elem().Underlying().(*types.Array)
			n := int(at.Len())
			es := st.sizeOf(at.Elem())
			lo := bound(in.Low, 0)
			hi := bound(in.High, n)
			mx := bound(in.Max, n)
			if lo < 0 || hi < lo || mx < hi || mx > n {
				st.certainPanic("slice bounds out of range")
			}
			return Slice{Obj: s.Obj, Off: s.Off + lo*es, Len: hi - lo, Cap: mx - lo, ES: es}
		}
		panic(st.unsupported(fmt.Sprintf("slice of %T", v)))
	})
}

func (st *State) typeAssert(fr *Frame, in *ssa.TypeAssert) Value {
	x := st.get(fr, in.X)
	if mx, ok := x.(Mux); ok {
		k := st.choose(mx.G)
		x = mx.V[k]
	}
	ifc, ok := x.(Iface)
	if !ok {
		panic(st.unsupported(fmt.Sprintf("type assertion on %T", x)))
	}
	good := false
	var res Value
	if ifc.T != nil {
		if it, isIface := in.AssertedType.Underlying().(*types.Interface); isIface {
			good = types.Implements(ifc.T, it)
			res = ifc
		} else {
			good = types.Identical(ifc.T, in.AssertedType)
			res = ifc.V
		}
	}
	if in.CommaOk {
		if !good {
			res = st.zero(in.AssertedType)
		}
		return Agg{res, st.b.Bool(good)}
	}
	if !good {
		st.certainPanic("interface conversion failed: " + in.AssertedType.String())
	}
	return res
}

// ---------------------------------------------------------------- conversions

func (st *State) convert(x Value, from, to types.Type) Value {
	if mx, ok := x.(Mux); ok {
		if _, toSlice := to.Underlying().(*types.Slice); toSlice {
			// string -> []rune / []byte of alternatives of different length: every loop over the result
			// would have a symbolic bound; fork over the alternatives instead
			return st.convert(st.demux(mx), from, to)
		}
		return st.mapMux(mx, func(v Value) Value { return st.convert(v, from, to) })
	}
	b := st.b
	fw, fsigned, fInt := intType(from)
	tw, _, tInt := intType(to)
	switch {
	case fInt && tInt && fw > 0 && tw > 0:
		n := x.(*term.Node)
		switch {
		case tw == fw:
			return n
		case tw < fw:
			return b.Extract(n, tw-1, 0)
		case fsigned:
			return b.SExt(n, tw)
		default:
			return b.ZExt(n, tw)
		}
	case fInt && isFloat(to):
		n := st.toInt64(x, from)
		if c, ok := n.ConstVal(); ok {
			if fsigned {
				return Float{float64(int64(c))}
			}
			return Float{float64(c)}
		}
		if st.inst.RatFloat {
			return RatF{N: []*term.Node{n}, D: []*term.Node{b.Const(64, 1)}}
		}
		v := st.concretize(n, "int to float conversion")
		if fsigned {
			return Float{float64(int64(v))}
		}
		return Float{float64(v)}
	case isFloat(from) && tInt:
		switch f := x.(type) {
		case Float:
			if math.IsNaN(f.F) || math.IsInf(f.F, 0) || math.Abs(f.F) >= 1<<63 {
				// implementation-defined in Go; amd64 yields the minimum integer
				return b.Const(tw, uint64(1)<<63)
			}
			return b.Const(tw, uint64(int64(f.F)))
		case RatF:
			// truncation of min_i N_i/D_i for non-negative operands
			var best *term.Node
			for i := range f.N {
				if f.N[i].SLo < 0 || f.D[i].SLo <= 0 {
					panic(st.unsupported("rational float abstraction needs non-negative numerator and positive denominator"))
				}
				q := b.UDiv(f.N[i], f.D[i])
				if best == nil {
					best = q
				} else {
					best = b.Ite(b.Ult(q, best), q, best)
				}
			}
			if tw < 64 {
				return b.Extract(best, tw-1, 0)
			}
			return best
		}
	case isFloat(from) && isFloat(to):
		return x
	case isString(from) && !isString(to):
		s := x.(Str)
		sl := to.Underlying().(*types.Slice)
		if ew, _, _ := intType(sl.Elem()); ew == 8 {
			out := st.newSlice(sl.Elem(), len(s.B), len(s.B))
			for i, c := range s.B {
				out.Obj.Cells[i] = c
			}
			return out
		}
		// []rune
		var runes []*term.Node
		for pos := 0; pos < len(s.B); {
			r, size := st.decodeRune(s.B, pos)
			runes = append(runes, r)
			pos += size
		}
		out := st.newSlice(sl.Elem(), len(runes), len(runes))
		for i, r := range runes {
			out.Obj.Cells[i] = r
		}
		return out
	case isString(to):
		if isString(from) {
			return x
		}
		if fInt {
			n := x.(*term.Node)
			var r *term.Node
			if fw < 32 {
				if fsigned {
					r = b.SExt(n, 32)
				} else {
					r = b.ZExt(n, 32)
				}
			} else if fw == 32 {
				r = n
			} else {
				// values outside int32 become U+FFFD
				if fsigned {
					st.runeRangeNote(n)
				}
				r = b.Extract(n, 31, 0)
				if !(n.SLo >= -1<<31 && n.SHi < 1<<31) {
					fits := b.Eq(b.SExt(r, 64), n)
					r = b.Ite(fits, r, b.Const(32, 0xFFFD))
				}
			}
			return Str{B: st.encodeRune(r)}
		}
		sl := x.(Slice)
		st0 := from.Underlying().(*types.Slice)
		if ew, _, _ := intType(st0.Elem()); ew == 8 {
			out := Str{B: make([]*term.Node, sl.Len)}
			for i := 0; i < sl.Len; i++ {
				out.B[i] = sl.Obj.Cells[sl.Off+i].(*term.Node)
			}
			return out
		}
		var out Str
		for i := 0; i < sl.Len; i++ {
			out.B = append(out.B, st.encodeRune(sl.Obj.Cells[sl.Off+i].(*term.Node))...)
		}
		return out
	}
	// pointer <-> unsafe.Pointer and the like
	if _, ok := from.Underlying().(*types.Pointer); ok {
		return x
	}
	panic(st.unsupported(fmt.Sprintf("conversion %s -> %s", from, to)))
}

func (st *State) runeRangeNote(*term.Node) {}
