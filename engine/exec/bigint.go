package exec

import (
	"golang.org/x/tools/go/ssa"

	"vpengine/term"
)

// Minimal model of math/big for the one use in the code under test (PDF417
// numeric compaction): non-negative values below 2^63 kept as 64-bit terms.
// Anything larger or negative is reported as unsupported (inconclusive).

func (st *State) bigNew(v *term.Node) Value {
	o := st.newObject(1, nil)
	o.Label = "big.Int"
	o.Cells[0] = v
	return Ptr{Obj: o}
}

func (st *State) bigVal(v Value) *term.Node {
	p, ok := v.(Ptr)
	if !ok || p.Obj == nil || p.Obj.Label != "big.Int" {
		panic(st.unsupported("math/big value of unknown origin"))
	}
	return p.Obj.Cells[0].(*term.Node)
}

func init() {
	libIntrinsics["math/big.NewInt"] = func(st *State, fr *Frame, fn *ssa.Function, a []Value) Value {
		n := a[0].(*term.Node)
		if n.SLo < 0 {
			panic(st.unsupported("math/big model: negative value"))
		}
		return st.bigNew(n)
	}
	libIntrinsics["(*math/big.Int).SetString"] = func(st *State, fr *Frame, fn *ssa.Function, a []Value) Value {
		z := a[0].(Ptr)
		s := a[1].(Str)
		base := a[2].(*term.Node)
		if c, ok := base.ConstVal(); !ok || c != 10 {
			panic(st.unsupported("math/big model: SetString base other than 10"))
		}
		if len(s.B) == 0 || len(s.B) > 18 {
			// longer digit strings only if fully concrete and small enough are not needed by the harnesses
			panic(st.unsupported("math/big model: SetString of more than 18 digits (value would not fit 63 bits)"))
		}
		b := st.b
		ok := b.True
		val := b.Const(64, 0)
		for _, ch := range s.B {
			ch = st.sub(ch)
			d := b.Sub(b.ZExt(ch, 64), b.Const(64, '0'))
			ok = b.BAnd(ok, b.Ule(b.Const(8, '0'), ch), b.Ule(ch, b.Const(8, '9')))
			val = b.Add(b.Mul(val, b.Const(64, 10)), d)
		}
		// on failure big.Int's value is undefined; callers only use it after checking ok
		st.write(z.Obj, 0, val)
		return Agg{z, ok}
	}
	libIntrinsics["(*math/big.Int).Cmp"] = func(st *State, fr *Frame, fn *ssa.Function, a []Value) Value {
		x, y := st.bigVal(a[0]), st.bigVal(a[1])
		b := st.b
		return b.Ite(b.Ult(x, y), b.Const(64, ^uint64(0)), b.Ite(b.Eq(x, y), b.Const(64, 0), b.Const(64, 1)))
	}
	libIntrinsics["(*math/big.Int).DivMod"] = func(st *State, fr *Frame, fn *ssa.Function, a []Value) Value {
		z, x, y, m := a[0].(Ptr), st.bigVal(a[1]), st.bigVal(a[2]), a[3].(Ptr)
		b := st.b
		st.panicIf(b.Eq(y, b.Const(64, 0)), "math/big: division by zero")
		q, r := b.UDiv(x, y), b.URem(x, y)
		st.write(z.Obj, 0, q)
		st.write(m.Obj, 0, r)
		return Agg{z, m}
	}
	libIntrinsics["(*math/big.Int).Int64"] = func(st *State, fr *Frame, fn *ssa.Function, a []Value) Value {
		return st.bigVal(a[0])
	}
}
