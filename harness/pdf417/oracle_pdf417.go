package pdf417

// Independent ISO/IEC 15438 (PDF417) reference model.
//
// Everything here is derived from the standard, not from the package under
// test. The one thing that cannot be derived from a rule, the 3 x 929
// codeword-to-bar-pattern table, is NOT embedded: functions that need it take
// it as a parameter (table(cluster, value)), and vpPdfPatternOK states the
// structural properties every entry must have.
//
// Sub-mode numbering used by this file: 0 Alpha, 1 Lower, 2 Mixed, 3 Punct.
// (The library's subUpper..subPunct are 3..6 because of where iota stands.)

const (
	vpPdfStartPattern = 0x1FEA8 // 17 modules: 11111111010101000
	vpPdfStopPattern  = 0x3FA29 // 18 modules: 111111101000101001
	vpPdfField        = 929
)

func vpPdfB2I(b bool) int {
	if b {
		return 1
	}
	return 0
}

// ---------------------------------------------------------------------------
// 1. Symbol character structure (ISO/IEC 15438 5.3.1)
// ---------------------------------------------------------------------------

// vpPdfPatternOK reports whether pattern (17 bits, MSB = first module, 1 = bar)
// is a structurally valid symbol character of the given cluster index
// (0, 1, 2 for cluster numbers 0, 3, 6): begins with a bar, ends with a space,
// exactly 4 bars and 4 spaces, every element 1..6 modules wide, and
// (b1 - b2 + b3 - b4 + 9) mod 9 equal to the cluster number.
func vpPdfPatternOK(cluster int, value int, pattern int) bool {
	ok := cluster >= 0 && cluster <= 2 && value >= 0 && value <= 928
	ok = ok && pattern >= 0 && pattern>>17 == 0
	ok = ok && (pattern>>16)&1 == 1 && pattern&1 == 0
	prev := 0 // a virtual space precedes the first module
	run := 0
	bars := 0
	spaces := 0
	sign := -1
	sum := 0
	for i := 0; i < 17; i++ {
		bit := (pattern >> uint(16-i)) & 1
		if bit != prev {
			run = 1
		} else {
			run++
		}
		if bit == 1 && prev == 0 {
			bars++
			sign = -sign
		}
		if bit == 0 && prev == 1 {
			spaces++
		}
		if bit == 1 {
			sum += sign
		}
		ok = ok && run <= 6
		prev = bit
	}
	ok = ok && bars == 4 && spaces == 4
	ok = ok && (sum+18)%9 == 3*cluster
	return ok
}

// ---------------------------------------------------------------------------
// 2. Row indicators (ISO/IEC 15438 5.11.3)
// ---------------------------------------------------------------------------

// vpPdfLeftIndicator is the value of the left row indicator of row `row`
// (0-based) of a symbol with `rows` rows, `cols` data columns and error
// correction level `level`.
func vpPdfLeftIndicator(row, rows, cols, level int) int {
	base := 30 * (row / 3)
	cl := row % 3
	if cl == 0 {
		return base + (rows-1)/3
	}
	if cl == 1 {
		return base + level*3 + (rows-1)%3
	}
	return base + (cols - 1)
}

// vpPdfRightIndicator is the value of the right row indicator.
func vpPdfRightIndicator(row, rows, cols, level int) int {
	base := 30 * (row / 3)
	cl := row % 3
	if cl == 0 {
		return base + (cols - 1)
	}
	if cl == 1 {
		return base + (rows-1)/3
	}
	return base + level*3 + (rows-1)%3
}

// ---------------------------------------------------------------------------
// 3. Symbol matrix
// ---------------------------------------------------------------------------

func vpPdfPut(dst []bool, at int, pattern int, n int) {
	for k := 0; k < n; k++ {
		dst[at+k] = (pattern>>uint(n-1-k))&1 == 1
	}
}

// vpPdfMatrix lays out the complete symbol: one []bool of 17*(cols+4)+1
// modules per symbol row (true = bar). codewords holds rows*cols values, row by
// row (length descriptor, data, pad, error correction). Each row is: start
// pattern, left row indicator, cols codewords, right row indicator, stop
// pattern, all symbol characters taken from cluster (row mod 3).
// Codeword values are only ever passed to table and shifted; never branched on.
func vpPdfMatrix(rows, cols, level int, codewords []int, table func(cluster, value int) int) [][]bool {
	width := 17*(cols+4) + 1
	out := make([][]bool, rows)
	for r := 0; r < rows; r++ {
		line := make([]bool, width)
		cl := r % 3
		vpPdfPut(line, 0, vpPdfStartPattern, 17)
		vpPdfPut(line, 17, table(cl, vpPdfLeftIndicator(r, rows, cols, level)), 17)
		for c := 0; c < cols; c++ {
			vpPdfPut(line, 17*(c+2), table(cl, codewords[r*cols+c]), 17)
		}
		vpPdfPut(line, 17*(cols+2), table(cl, vpPdfRightIndicator(r, rows, cols, level)), 17)
		vpPdfPut(line, 17*(cols+3), vpPdfStopPattern, 18)
		out[r] = line
	}
	return out
}

// ---------------------------------------------------------------------------
// 4. Error correction (ISO/IEC 15438 5.10, Annex K): Reed-Solomon over GF(929)
// ---------------------------------------------------------------------------

// vpPdfRSCount is k = 2^(level+1).
func vpPdfRSCount(level int) int {
	return 2 << uint(level)
}

// vpPdfRSCoeffs returns a_0 .. a_{k-1}, the coefficients (low order first,
// reduced to 0..928, without the leading 1 of x^k) of
// g(x) = (x - 3)(x - 3^2)...(x - 3^k) over GF(929).
func vpPdfRSCoeffs(level int) []int {
	k := vpPdfRSCount(level)
	g := make([]int, k+1)
	g[0] = 1
	root := 1
	for i := 1; i <= k; i++ {
		root = (root * 3) % vpPdfField
		// g(x) *= (x - root); degree before this step is i-1
		for j := i; j >= 1; j-- {
			g[j] = (g[j-1] + (vpPdfField-root)*g[j]) % vpPdfField
		}
		g[0] = ((vpPdfField - root) * g[0]) % vpPdfField
	}
	return g[:k]
}

// vpPdfRS returns the k error correction codewords C_{k-1} .. C_0 (in symbol
// order) for data = d_{n-1} .. d_0 (symbol order, beginning with the symbol
// length descriptor, including pad codewords): the complements of the
// coefficients of the remainder of d(x)*x^k divided by g(x). This is the
// division circuit of the standard; every step is +, *constant, %929.
func vpPdfRS(data []int, level int) []int {
	k := vpPdfRSCount(level)
	a := vpPdfRSCoeffs(level)
	e := make([]int, k)
	for i := 0; i < len(data); i++ {
		t1 := (data[i] + e[k-1]) % vpPdfField
		for j := k - 1; j >= 1; j-- {
			t2 := (t1 * a[j]) % vpPdfField
			e[j] = (e[j-1] + vpPdfField - t2) % vpPdfField
		}
		t2 := (t1 * a[0]) % vpPdfField
		e[0] = (vpPdfField - t2) % vpPdfField
	}
	out := make([]int, k)
	for i := 0; i < k; i++ {
		out[i] = (vpPdfField - e[k-1-i]) % vpPdfField
	}
	return out
}

// vpPdfSyndromesZero evaluates the polynomial whose coefficients are all
// (symbol order = highest power first; data followed by the k error correction
// codewords) at 3^1 .. 3^k and reports whether every value is 0 mod 929.
func vpPdfSyndromesZero(all []int, level int) bool {
	k := vpPdfRSCount(level)
	ok := true
	alpha := 1
	for i := 1; i <= k; i++ {
		alpha = (alpha * 3) % vpPdfField
		s := 0
		for j := 0; j < len(all); j++ {
			s = (s*alpha + all[j]) % vpPdfField
		}
		ok = ok && s == 0
	}
	return ok
}

// ---------------------------------------------------------------------------
// 5. High-level decoding (ISO/IEC 15438 5.4)
// ---------------------------------------------------------------------------

// Text compaction sub-mode tables (Table 5 of the standard), flattened as
// [submode*30 + value]. vpPdfTextChar holds the character (0 = not a
// character), vpPdfTextAct the function: 1..4 latch to Alpha/Lower/Mixed/Punct,
// 5 shift to Alpha (as), 6 shift to Punct (ps).
var vpPdfTextChar = [120]byte{
	// Alpha
	'A', 'B', 'C', 'D', 'E', 'F', 'G', 'H', 'I', 'J', 'K', 'L', 'M', 'N', 'O',
	'P', 'Q', 'R', 'S', 'T', 'U', 'V', 'W', 'X', 'Y', 'Z', ' ', 0, 0, 0,
	// Lower
	'a', 'b', 'c', 'd', 'e', 'f', 'g', 'h', 'i', 'j', 'k', 'l', 'm', 'n', 'o',
	'p', 'q', 'r', 's', 't', 'u', 'v', 'w', 'x', 'y', 'z', ' ', 0, 0, 0,
	// Mixed
	'0', '1', '2', '3', '4', '5', '6', '7', '8', '9', '&', '\r', '\t', ',', ':',
	'#', '-', '.', '$', '/', '+', '%', '*', '=', '^', 0, ' ', 0, 0, 0,
	// Punctuation
	';', '<', '>', '@', '[', '\\', ']', '_', '`', '~', '!', '\r', '\t', ',', ':',
	'\n', '-', '.', '$', '/', '"', '|', '*', '(', ')', '?', '{', '}', '\'', 0,
}

var vpPdfTextAct = [120]int{
	// Alpha: 27 ll, 28 ml, 29 ps
	0, 0, 0, 0, 0, 0, 0, 0, 0, 0, 0, 0, 0, 0, 0, 0, 0, 0, 0, 0, 0, 0, 0, 0, 0, 0, 0, 2, 3, 6,
	// Lower: 27 as, 28 ml, 29 ps
	0, 0, 0, 0, 0, 0, 0, 0, 0, 0, 0, 0, 0, 0, 0, 0, 0, 0, 0, 0, 0, 0, 0, 0, 0, 0, 0, 5, 3, 6,
	// Mixed: 25 pl, 27 ll, 28 al, 29 ps
	0, 0, 0, 0, 0, 0, 0, 0, 0, 0, 0, 0, 0, 0, 0, 0, 0, 0, 0, 0, 0, 0, 0, 0, 0, 4, 0, 2, 1, 6,
	// Punctuation: 29 al
	0, 0, 0, 0, 0, 0, 0, 0, 0, 0, 0, 0, 0, 0, 0, 0, 0, 0, 0, 0, 0, 0, 0, 0, 0, 0, 0, 0, 0, 1,
}

// vpPdfDec is the decoder state. All steps are written "obliviously": every
// helper takes a guard and performs its (scalar) updates under that guard, all
// loops have constant trip counts.
type vpPdfDec struct {
	out []byte
	n   int
	ok  bool

	mode  int  // 0 text, 1 byte (901), 2 byte (924), 3 numeric
	sub   int  // latched text sub-mode 0..3
	shift int  // 0 none, 1 as pending, 2 ps pending
	pend  bool // 913 seen: the next codeword is one byte

	bbuf [5]int // byte compaction: codewords of the open group
	bcnt int

	dig  [45]int // numeric compaction: decimal digits (low first) of the open group
	ncnt int
}

func (d *vpPdfDec) emit(g bool, b int) {
	if g {
		d.out[d.n] = byte(b)
		d.n++
	}
}

// textHalf processes one text compaction value v (0..29).
func (d *vpPdfDec) textHalf(g bool, v int) {
	t := d.sub
	if d.shift == 1 {
		t = 0
	}
	if d.shift == 2 {
		t = 3
	}
	idx := t*30 + v
	if !g {
		idx = 0
	}
	ch := int(vpPdfTextChar[idx])
	act := vpPdfTextAct[idx]
	shifted := d.shift != 0
	if g {
		if shifted {
			// a shift applies to exactly one value; the sub-mode in force
			// before the shift is restored. A latch/shift value under a
			// shift is ignored, except that `ps` followed by 29 (al in the
			// Punct table) latches to Alpha (ZXing).
			d.shift = 0
			if act == 1 && t == 3 {
				d.sub = 0
			}
		} else {
			if act >= 1 && act <= 4 {
				d.sub = act - 1
			}
			if act == 5 {
				d.shift = 1
			}
			if act == 6 {
				d.shift = 2
			}
		}
	}
	d.emit(g && ch != 0, ch)
}

// byteGroup emits the 6 bytes of a full group of 5 codewords (base 900 -> base 256).
func (d *vpPdfDec) byteGroup(g bool) {
	v := 0
	for j := 0; j < 5; j++ {
		v = v*900 + d.bbuf[j]
	}
	d.ok = d.ok && (!g || v>>48 == 0)
	for j := 0; j < 6; j++ {
		d.emit(g, (v>>uint(8*(5-j)))&0xFF)
	}
	if g {
		d.bcnt = 0
	}
}

// byteCw processes one data codeword in byte compaction mode.
// 924: every 5 codewords are 6 bytes. 901: 5 codewords are 6 bytes only when
// at least one more data codeword follows in the segment (the byte count is
// not a multiple of 6, so the segment ends with 1..5 single-byte codewords).
func (d *vpPdfDec) byteCw(g bool, c int) {
	d.byteGroup(g && d.mode == 1 && d.bcnt == 5)
	for j := 0; j < 5; j++ {
		if g && j == d.bcnt {
			d.bbuf[j] = c
		}
	}
	if g {
		d.bcnt++
	}
	d.byteGroup(g && d.mode == 2 && d.bcnt == 5)
}

// byteFlush ends a byte compaction segment: the open group is one byte per codeword.
func (d *vpPdfDec) byteFlush(g bool) {
	for j := 0; j < 5; j++ {
		gj := g && j < d.bcnt
		d.ok = d.ok && (!gj || d.bbuf[j] < 256)
		d.emit(gj, d.bbuf[j])
	}
	if g {
		d.bcnt = 0
	}
}

// numFlush ends a numeric group: the base 900 value, written in decimal, is
// a '1' followed by the digits.
func (d *vpPdfDec) numFlush(g bool) {
	g = g && d.ncnt > 0
	started := false
	for j := 44; j >= 0; j-- {
		dj := d.dig[j]
		d.emit(g && started, '0'+dj)
		if !started && dj != 0 {
			started = true
			d.ok = d.ok && (!g || dj == 1)
		}
	}
	d.ok = d.ok && (!g || started)
	for j := 0; j < 45; j++ {
		if g {
			d.dig[j] = 0
		}
	}
	if g {
		d.ncnt = 0
	}
}

// numCw processes one data codeword in numeric compaction mode.
func (d *vpPdfDec) numCw(g bool, c int) {
	carry := c
	for j := 0; j < 45; j++ {
		t := d.dig[j]*900 + carry
		if g {
			d.dig[j] = t % 10
		}
		carry = t / 10
	}
	if g {
		d.ncnt++
	}
	d.numFlush(g && d.ncnt == 15)
}

func (d *vpPdfDec) step(c int) {
	d.ok = d.ok && c >= 0 && c <= 928
	isData := c >= 0 && c < 900

	// the codeword after 913 is one byte
	pend := d.pend
	d.ok = d.ok && (!pend || c < 256)
	d.emit(pend, c)
	d.pend = false

	// function codewords close the open byte / numeric segment
	fn := !pend && !isData
	d.byteFlush(fn && (d.mode == 1 || d.mode == 2))
	d.numFlush(fn && d.mode == 3)
	if fn {
		if c == 913 {
			// only defined in text compaction; the sub-mode is kept, a
			// pending ps (used as padding) is dropped.
			d.ok = d.ok && d.mode == 0
			d.pend = true
			d.shift = 0
		} else {
			m := -1
			if c == 900 {
				m = 0
			}
			if c == 901 {
				m = 1
			}
			if c == 924 {
				m = 2
			}
			if c == 902 {
				m = 3
			}
			// Macro PDF417, ECI and reserved codewords are not modelled.
			d.ok = d.ok && m >= 0
			if m >= 0 {
				d.mode = m
			}
			d.sub = 0
			d.shift = 0
		}
	}

	dt := !pend && isData
	tx := dt && d.mode == 0
	d.textHalf(tx, c/30)
	d.textHalf(tx, c%30)
	d.byteCw(dt && (d.mode == 1 || d.mode == 2), c)
	d.numCw(dt && d.mode == 3, c)
}

func (d *vpPdfDec) finish() {
	d.byteFlush(d.mode == 1 || d.mode == 2)
	d.numFlush(d.mode == 3)
	d.ok = d.ok && !d.pend
}

func vpPdfNewDec(n int, sub int) *vpPdfDec {
	d := new(vpPdfDec)
	d.out = make([]byte, 3*n+8)
	d.ok = true
	d.sub = sub
	return d
}

// vpPdfDecode decodes the data codewords of a symbol (those after the symbol
// length descriptor, without error correction; trailing 900 pad codewords may
// be present and produce nothing). Text compaction (Alpha) is in effect at the
// start. ok is false for codewords outside 0..928, Macro/ECI/reserved function
// codewords, 913 outside text compaction or without a following byte value, a
// single-byte codeword above 255, a 5-codeword group above 2^48-1, or a
// numeric group whose decimal value does not begin with 1.
func vpPdfDecode(cw []int) ([]byte, bool) {
	d := vpPdfNewDec(len(cw), 0)
	for i := 0; i < len(cw); i++ {
		d.step(cw[i])
	}
	d.finish()
	return d.out[:d.n], d.ok
}

// vpPdfDecodeText decodes a run of text compaction codewords (each 0..899)
// starting in sub-mode sub (0 Alpha, 1 Lower, 2 Mixed, 3 Punct) and returns
// the characters and the latched sub-mode a reader is in afterwards (a pending
// trailing ps/as is padding and does not change it).
func vpPdfDecodeText(cw []int, sub int) ([]byte, int, bool) {
	d := vpPdfNewDec(len(cw), sub)
	for i := 0; i < len(cw); i++ {
		c := cw[i]
		in := c >= 0 && c < 900
		d.ok = d.ok && in
		d.textHalf(in, c/30)
		d.textHalf(in, c%30)
	}
	return d.out[:d.n], d.sub, d.ok
}

// ---------------------------------------------------------------------------
// 6. Shape
// ---------------------------------------------------------------------------

// vpPdfShapeOK: the library's limits (2..30 rows and columns; the standard
// itself asks for 3..90 rows and 1..30 columns), room for the length
// descriptor, dataWords data codewords and k error correction codewords, and
// less than one full row of padding.
func vpPdfShapeOK(dataWords, level, rows, cols int) bool {
	need := dataWords + 1 + vpPdfRSCount(level)
	ok := rows >= 2 && rows <= 30 && cols >= 2 && cols <= 30
	ok = ok && rows*cols >= need
	ok = ok && (rows-1)*cols < need
	return ok
}

// ---------------------------------------------------------------------------
// 7. Reference reader (native use)
// ---------------------------------------------------------------------------

// vpPdfReadInfo is the detailed outcome of vpPdfReadDetail; each flag is one
// independent check so that a caller can tell which rule a symbol violates.
type vpPdfReadInfo struct {
	payload   []byte
	rows      int
	cols      int
	level     int
	codewords []int // rows*cols values, row by row
	left      []int // left row indicator values as read
	right     []int // right row indicator values as read

	geometryOK   bool // >= 2 rows, equal widths, width = 17*(cols+4)+1, cols >= 1
	startStopOK  bool // every row begins with the start and ends with the stop pattern
	patternsOK   bool // every symbol character is a pattern of cluster (row mod 3)
	levelOK      bool // level read from row 1 is 0..8
	indicatorsOK bool // all indicators equal vpPdfLeftIndicator / vpPdfRightIndicator
	lengthOK     bool // length descriptor = rows*cols - k, >= 1
	syndromesOK  bool
	decodeOK     bool
}

func (r *vpPdfReadInfo) allOK() bool {
	return r.geometryOK && r.startStopOK && r.patternsOK && r.levelOK &&
		r.indicatorsOK && r.lengthOK && r.syndromesOK && r.decodeOK
}

func vpPdfBits(line []bool, at int, n int) int {
	v := 0
	for k := 0; k < n; k++ {
		v = v<<1 | vpPdfB2I(line[at+k])
	}
	return v
}

// vpPdfLookup is the inverse of table within one cluster (-1: no such pattern).
func vpPdfLookup(table func(cluster, value int) int, cluster int, pattern int) int {
	found := -1
	for v := 0; v < 929; v++ {
		if table(cluster, v) == pattern && found < 0 {
			found = v
		}
	}
	return found
}

func vpPdfReadDetail(img [][]bool, table func(cluster, value int) int) *vpPdfReadInfo {
	res := new(vpPdfReadInfo)
	rows := len(img)
	if rows < 2 {
		return res
	}
	width := len(img[0])
	for r := 0; r < rows; r++ {
		if len(img[r]) != width {
			return res
		}
	}
	if width < 17*5+1 || (width-1)%17 != 0 {
		return res
	}
	cols := (width-1)/17 - 4
	res.geometryOK = true
	res.rows = rows
	res.cols = cols

	res.startStopOK = true
	res.patternsOK = true
	res.left = make([]int, rows)
	res.right = make([]int, rows)
	res.codewords = make([]int, rows*cols)
	for r := 0; r < rows; r++ {
		line := img[r]
		cl := r % 3
		if vpPdfBits(line, 0, 17) != vpPdfStartPattern || vpPdfBits(line, 17*(cols+3), 18) != vpPdfStopPattern {
			res.startStopOK = false
		}
		res.left[r] = vpPdfLookup(table, cl, vpPdfBits(line, 17, 17))
		res.right[r] = vpPdfLookup(table, cl, vpPdfBits(line, 17*(cols+2), 17))
		if res.left[r] < 0 || res.right[r] < 0 {
			res.patternsOK = false
		}
		for c := 0; c < cols; c++ {
			v := vpPdfLookup(table, cl, vpPdfBits(line, 17*(c+2), 17))
			if v < 0 {
				res.patternsOK = false
			}
			res.codewords[r*cols+c] = v
		}
	}
	if !res.patternsOK {
		return res
	}

	// The error correction level is carried by the left indicator of row 1
	// (cluster 3): value = 30*(1/3) + 3*level + (rows-1) mod 3.
	level := res.left[1] / 3
	res.level = level
	res.levelOK = level >= 0 && level <= 8
	if !res.levelOK {
		return res
	}
	res.indicatorsOK = true
	for r := 0; r < rows; r++ {
		if res.left[r] != vpPdfLeftIndicator(r, rows, cols, level) ||
			res.right[r] != vpPdfRightIndicator(r, rows, cols, level) {
			res.indicatorsOK = false
		}
	}

	k := vpPdfRSCount(level)
	n := res.codewords[0]
	res.lengthOK = n >= 1 && n == rows*cols-k
	res.syndromesOK = vpPdfSyndromesZero(res.codewords, level)
	if res.lengthOK {
		res.payload, res.decodeOK = vpPdfDecode(res.codewords[1:n])
	}
	return res
}

// vpPdfRead reads a symbol given as one []bool per symbol row.
func vpPdfRead(img [][]bool, table func(cluster, value int) int) (payload []byte, rows, cols, level int, ok bool) {
	res := vpPdfReadDetail(img, table)
	return res.payload, res.rows, res.cols, res.level, res.allOK()
}
