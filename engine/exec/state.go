package exec

import (
	"fmt"
	"go/types"
	"sort"
	"strings"
	"time"

	"golang.org/x/tools/go/ssa"

	"vpengine/smt"
	"vpengine/term"
)

type deferred struct {
	fn   *Closure
	args []Value
}

type Frame struct {
	fn     *ssa.Function
	info   *FnInfo
	regs   []Value
	block  *ssa.BasicBlock
	prev   *ssa.BasicBlock
	ip     int
	defers []deferred
	retReg int // register of the call instruction in the caller frame; -1 if none
	result Value
}

const (
	gRunnable = iota
	gParkedSend
	gParkedRecv
	gDone
)

type G struct {
	id      int
	frames  []*Frame
	status  int
	ch      *ChanObj
	recvReg int  // register to receive into when unparked
	recvOk  bool // comma-ok receive
	goSite  string
}

type pcList struct {
	cond *term.Node
	prev *pcList
	n    int
	// implied marks a condition that follows from the earlier ones (the solver refuted its
	// negation): it is never sent to the solver again, it only feeds the syntactic facts
	// (bindings, ranges, guard refutation).
	implied bool
}

func (p *pcList) slice() []*term.Node {
	var out []*term.Node
	for q := p; q != nil; q = q.prev {
		if q.implied {
			continue
		}
		out = append(out, q.cond)
	}
	// reverse
	for i, j := 0, len(out)-1; i < j; i, j = i+1, j-1 {
		out[i], out[j] = out[j], out[i]
	}
	return out
}

type trailEntry struct {
	obj   *Object
	off   int
	old   Value
	m     *MapObj
	mLen  int // previous number of keys (for append) or -1
	mIdx  int // overwritten index
	ch    *ChanObj
	chOld ChanObj
}

type altern struct {
	k     int
	model *term.Model
	guard *term.Node // the condition this alternative stands for (checked when the decision is replayed)
}

type choicePoint struct {
	trailMark int
	gs        []*G
	curID     int
	pc        *pcList
	prefix    []int
	alts      []altern
	serial    int
	mapDesc   bool
	lockOwner map[*Object]int
}

// Obligation is a proof obligation: pc => cond (assert / no-panic) or, for
// covers, the satisfiability of pc && cond.
type Obligation struct {
	Kind  string // "assert", "panic", "cover"
	Label string
	Pos   string
	PC    *pcList
	Cond  *term.Node // for assert/panic: the condition that must hold
}

type pathEnd struct{ reason string }
type altDropped struct{}
type specAbort struct{ reason string }
type Unsupported struct{ Msg string }

func (u Unsupported) Error() string { return "unsupported: " + u.Msg }

type specCtx struct {
	lazy       int     // step budget of a lazily attempted merge (0 = none)
	landed     bool    // an inner merge ended exactly at this arm's join block
	landedPhis []Value // ... with these values for the join block's phis
	frame      *Frame
	join       *ssa.BasicBlock
	g          *G
	depth      int
	steps      int
}

// State is the mutable interpreter state of one harness instance.
type State struct {
	prog *Program
	b    *term.B
	inst *Instance

	gs  []*G
	cur *G

	trail     []trailEntry
	instrMark int
	serial    int
	pc        *pcList
	model     *term.Model
	ev        *term.Evaluator

	globals  map[*ssa.Global]*Object
	initDone bool

	cps         []*choicePoint
	forced      []int
	forcedPos   int
	expectGuard *term.Node
	decisions   []int
	spec        *specCtx

	obligs []Obligation
	res    *InstanceResult
	solver *pathSolver
	pool   *smt.Pool

	mapDesc    bool
	lockOwner  map[*Object]int // mutex object -> goroutine id holding it
	writeLog   []string        // stores into package-level state after init (C15)
	trackGlob  bool
	globalObj  map[*Object]string // objects reachable from globals at end of init -> label
	globalMaps map[*MapObj]string
	pcFacts    map[*term.Node]struct{} // conjuncts of the path condition (for syntactic refutation of guards)
	inputVars  []inputVar
	deadline   time.Time
	stepLimit  int64
	loopBound  int
	steps      int64
	pathSteps  int64
	redirect   map[string]*ssa.Function
	callDepth  int
	rsSites    map[string]bool
	sizeMemo   map[types.Type]int
	guard      *term.Node // guard of the alternative being processed by mapMux
	subst      map[*term.Node]*term.Node
	lazyLimit  int
	bounds     map[*term.Node][2]uint64
}

type inputVar struct {
	ID   string
	Node *term.Node
	Kind string
}

func (st *State) unsupported(msg string) Unsupported {
	pos := ""
	if st.cur != nil && len(st.cur.frames) > 0 {
		fr := st.cur.frames[len(st.cur.frames)-1]
		pos = fr.fn.String()
		if fr.block != nil && fr.ip < len(fr.block.Instrs) {
			pos += ": " + fr.block.Instrs[fr.ip].String() + " @" + st.prog.Prog.Fset.Position(fr.block.Instrs[fr.ip].Pos()).String()
		}
	}
	return Unsupported{msg + " in " + pos}
}

// ---------------------------------------------------------------- memory + trail

func (st *State) newObject(n int, t types.Type) *Object {
	st.serial++
	return &Object{Serial: st.serial, Cells: make([]Value, n), Typ: t}
}

func (st *State) allocZero(t types.Type) *Object {
	o := st.newObject(st.sizeOf(t), t)
	st.flattenInto(o, 0, t, st.zero(t))
	return o
}

func (st *State) flattenInto(o *Object, off int, t types.Type, v Value) {
	cells := st.flatten(t, v, nil)
	copy(o.Cells[off:], cells)
}

func (st *State) write(o *Object, off int, v Value) {
	if off < 0 || off >= len(o.Cells) {
		panic(st.unsupported(fmt.Sprintf("internal: write offset %d outside object of %d cells", off, len(o.Cells))))
	}
	st.trail = append(st.trail, trailEntry{obj: o, off: off, old: o.Cells[off], mLen: -2})
	o.Cells[off] = v
	if st.trackGlob {
		if lbl, ok := st.globalObj[o]; ok {
			if !st.lockHeldByCur() {
				st.writeLog = append(st.writeLog, fmt.Sprintf("%s[%d] at %s", lbl, off, st.where()))
			}
		}
	}
}

func (st *State) lockHeldByCur() bool {
	for _, g := range st.lockOwner {
		if g == st.cur.id {
			return true
		}
	}
	return false
}

func (st *State) where() string {
	if st.cur == nil || len(st.cur.frames) == 0 {
		return "?"
	}
	fr := st.cur.frames[len(st.cur.frames)-1]
	if fr.block != nil && fr.ip < len(fr.block.Instrs) {
		return st.prog.Prog.Fset.Position(fr.block.Instrs[fr.ip].Pos()).String() + " (" + fr.fn.Name() + ")"
	}
	return fr.fn.String()
}

func (st *State) mapSet(m *MapObj, key, val Value) {
	if st.trackGlob && st.globalMaps[m] != "" && !st.lockHeldByCur() {
		st.writeLog = append(st.writeLog, fmt.Sprintf("map %s at %s", st.globalMaps[m], st.where()))
	}
	for i, k := range m.Keys {
		if st.sameValue(k, key) {
			st.trail = append(st.trail, trailEntry{m: m, mLen: -1, mIdx: i, old: m.Vals[i]})
			m.Vals[i] = val
			return
		}
	}
	st.trail = append(st.trail, trailEntry{m: m, mLen: len(m.Keys)})
	m.Keys = append(m.Keys, key)
	m.Vals = append(m.Vals, val)
}

func (st *State) chanTouch(c *ChanObj) {
	st.trail = append(st.trail, trailEntry{ch: c, chOld: *c, mLen: -2})
}

func (st *State) rollback(mark int) {
	for i := len(st.trail) - 1; i >= mark; i-- {
		e := &st.trail[i]
		switch {
		case e.obj != nil:
			e.obj.Cells[e.off] = e.old
		case e.m != nil:
			if e.mLen >= 0 {
				e.m.Keys = e.m.Keys[:e.mLen]
				e.m.Vals = e.m.Vals[:e.mLen]
			} else {
				e.m.Vals[e.mIdx] = e.old
			}
		case e.ch != nil:
			*e.ch = e.chOld
		}
	}
	st.trail = st.trail[:mark]
}

// ---------------------------------------------------------------- snapshots

func copyFrame(f *Frame) *Frame {
	c := *f
	c.regs = append([]Value(nil), f.regs...)
	c.defers = append([]deferred(nil), f.defers...)
	return &c
}

func copyGs(gs []*G) []*G {
	out := make([]*G, len(gs))
	for i, g := range gs {
		c := *g
		c.frames = make([]*Frame, len(g.frames))
		for j, f := range g.frames {
			c.frames[j] = copyFrame(f)
		}
		out[i] = &c
	}
	return out
}

func (st *State) gByID(id int) *G {
	for _, g := range st.gs {
		if g.id == id {
			return g
		}
	}
	return nil
}

// ---------------------------------------------------------------- path condition, model, feasibility

// noteBinding records var == const facts of the path condition; later reads of
// the variable (from registers or memory) see the constant.
func (st *State) noteBinding(c *term.Node) {
	if c.Op == term.OpBAnd {
		for _, a := range c.Args {
			st.noteBinding(a)
		}
		return
	}
	if st.pcFacts != nil {
		st.pcFacts[c] = struct{}{}
	}
	// range facts about an input variable: once both bounds are known and tighter than the
	// variable's own interval, later reads see a range-restricted twin (interval analysis then
	// narrows the arithmetic built on it). The twin is tied to the original by an equality.
	if (c.Op == term.OpUlt || c.Op == term.OpUle) && len(c.Args) == 2 {
		a, b := c.Args[0], c.Args[1]
		var v *term.Node
		lo, hi := uint64(0), ^uint64(0)
		base := func(n *term.Node) *term.Node {
			if n.Op != term.OpVar {
				return nil
			}
			if n.K2 == 2 { // a range view: the fact is about the variable it views
				return st.b.LookupVar(n.Name)
			}
			if n.K2 == 0 {
				return n
			}
			return nil
		}
		if a.IsConst() && base(b) != nil {
			v = base(b)
			lo = a.K
			if c.Op == term.OpUlt {
				lo++
			}
		} else if b.IsConst() && base(a) != nil {
			v = base(a)
			hi = b.K
			if c.Op == term.OpUlt {
				hi--
			}
		}
		if v != nil {
			bd, ok := st.bounds[v]
			if !ok {
				bd = [2]uint64{v.ULo, v.UHi}
			}
			if lo > bd[0] {
				bd[0] = lo
			}
			if hi < bd[1] {
				bd[1] = hi
			}
			st.bounds[v] = bd
			if bd[0] <= bd[1] && bd[1]-bd[0] < 1<<16 && (bd[0] > v.ULo || bd[1] < v.UHi) {
				tw := st.b.VarView(v, bd[0], bd[1])
				if cur, bound := st.subst[v]; !bound || !cur.IsConst() {
					st.subst[v] = tw
				}
			}
		}
		return
	}
	switch {
	case c.Op == term.OpEq && c.Args[0].Op == term.OpVar && c.Args[1].IsConst():
		st.subst[c.Args[0]] = c.Args[1]
	case c.Op == term.OpVar && c.W == 0:
		st.subst[c] = st.b.True
	case c.Op == term.OpBXor && c.K == 1 && len(c.Args) == 1 && c.Args[0].Op == term.OpVar:
		st.subst[c.Args[0]] = st.b.False
	}
}

// refuted reports whether guard g contradicts a conjunct of the path condition syntactically.
func (st *State) refuted(g *term.Node) bool {
	if g == st.b.False {
		return true
	}
	if len(st.pcFacts) == 0 {
		return false
	}
	if _, ok := st.pcFacts[st.b.BNot(g)]; ok {
		return true
	}
	if g.Op == term.OpBAnd {
		for _, a := range g.Args {
			if st.refuted(a) {
				return true
			}
		}
	}
	if g.Op == term.OpBOr {
		for _, a := range g.Args {
			if !st.refuted(a) {
				return false
			}
		}
		return true
	}
	return false
}

func (st *State) rebuildSubst() {
	st.subst = map[*term.Node]*term.Node{}
	st.bounds = map[*term.Node][2]uint64{}
	st.pcFacts = map[*term.Node]struct{}{}
	for q := st.pc; q != nil; q = q.prev {
		st.noteBinding(q.cond)
	}
}

func (st *State) pushPC(c *term.Node) {
	if c == st.b.True {
		return
	}
	st.noteBinding(c)
	st.flushObligs()
	n := 1
	if st.pc != nil {
		n = st.pc.n + 1
	}
	st.pc = &pcList{cond: c, prev: st.pc, n: n}
}

// noteImplied records a condition the path condition was shown to imply.
func (st *State) noteImplied(c *term.Node) {
	if c.IsConst() {
		return
	}
	st.noteBinding(c)
	st.pc = &pcList{cond: c, prev: st.pc, n: pcLen(st.pc), implied: true}
}

func (st *State) setModel(m *term.Model) {
	st.model = m
	if m != nil {
		st.ev = term.NewEvaluator(m)
	} else {
		st.ev = nil
	}
}

// evalBool evaluates c under the current model of the path condition.
func (st *State) evalBool(c *term.Node) (val bool, ok bool) {
	if v, isC := c.ConstVal(); isC {
		return v != 0, true
	}
	if st.ev == nil {
		return false, false
	}
	// new variables may have appeared; evaluator defaults them to zero / range minimum
	return st.ev.Bool(c), true
}

// feasible asks whether pc && c is satisfiable; returns a model if so.
// Unknown answers count as feasible without model.
func (st *State) feasible(c *term.Node) (bool, *term.Model) {
	if c == st.b.False {
		return false, nil
	}
	if v, ok := st.evalBool(c); ok && v {
		return true, st.model
	}
	r, m := st.solver.check(st, st.pc, c)
	switch r {
	case smt.Unsat:
		return false, nil
	case smt.Sat:
		return true, m
	}
	st.res.FeasUnknown++
	return true, nil
}

// assume adds c to the path condition; ends the path if infeasible.
func (st *State) assume(c *term.Node) {
	if c == st.b.True {
		return
	}
	ok, m := st.feasible(c)
	if !ok {
		panic(pathEnd{"infeasible"})
	}
	st.pushPC(c)
	st.setModel(m)
}

// choose selects one of the mutually exclusive alternatives; forks if several are feasible.
func (st *State) choose(guards []*term.Node) int {
	if st.forcedPos < len(st.forced) {
		k := st.forced[st.forcedPos]
		st.forcedPos++
		st.decisions = append(st.decisions, k)
		st.checkReplayedGuard(guards, k)
		st.pushPC(guards[k])
		return k
	}
	// constant guards
	nTrue := -1
	allConst := true
	for i, g := range guards {
		if g == st.b.True {
			nTrue = i
		} else if g != st.b.False {
			allConst = false
		}
	}
	if allConst {
		if nTrue < 0 {
			panic(pathEnd{"infeasible"})
		}
		st.decisions = append(st.decisions, nTrue)
		return nTrue
	}
	var alts []altern
	for i, g := range guards {
		if ok, m := st.feasible(g); ok {
			alts = append(alts, altern{i, m, g})
		}
	}
	if len(alts) == 0 {
		panic(pathEnd{"infeasible"})
	}
	if len(alts) > 1 {
		if st.spec != nil {
			panic(specAbort{"fork inside speculation"})
		}
		st.flushObligs()
		cp := &choicePoint{trailMark: st.instrMark, gs: copyGs(st.gs), curID: st.cur.id, pc: st.pc,
			prefix: append([]int(nil), st.decisions...), alts: alts[1:], serial: st.serial, mapDesc: st.mapDesc}
		cp.lockOwner = map[*Object]int{}
		for k, v := range st.lockOwner {
			cp.lockOwner[k] = v
		}
		st.cps = append(st.cps, cp)
		st.res.Forks += len(alts) - 1
	}
	k := alts[0].k
	st.decisions = append(st.decisions, k)
	st.pushPC(guards[k])
	st.setModel(alts[0].model)
	return k
}

// checkReplayedGuard: the last forced decision of a re-executed instruction must select the very
// condition the choice point recorded for it; anything else is an engine fault (the path explored
// would not be the one that was left open).
func (st *State) checkReplayedGuard(guards []*term.Node, k int) {
	if st.forcedPos != len(st.forced) || st.expectGuard == nil {
		return
	}
	want := st.expectGuard
	st.expectGuard = nil
	if k < 0 || k >= len(guards) || guards[k] != want {
		panic(Unsupported{"internal: replayed decision does not select the alternative recorded at the choice point"})
	}
}

// concretize forks over the feasible values of a symbolic integer (bounded).
func (st *State) concretize(n *term.Node, what string) uint64 {
	if v, ok := n.ConstVal(); ok {
		return v
	}
	for iter := 0; ; iter++ {
		if iter > st.inst.MaxConcretize {
			panic(Unsupported{fmt.Sprintf("concretisation of %s exceeds %d values at %s", what, st.inst.MaxConcretize, st.where())})
		}
		var v uint64
		if st.forcedPos < len(st.forced) {
			// replaying: the decision sequence tells us whether this value was taken; we still need the value
			// itself, which is deterministic given the same solver answers are not guaranteed -> store values in decisions
			v = uint64(st.forced[st.forcedPos])
			st.forcedPos++
			st.decisions = append(st.decisions, int(v))
			st.pushPC(st.b.Eq(n, st.b.Const(n.W, v)))
			return v
		}
		if st.ev == nil {
			// no model of the path condition at hand (e.g. inside a lazily merged arm): ask for one
			r, m := st.solver.check(st, st.pc, st.b.True)
			if r == smt.Unsat {
				panic(pathEnd{"infeasible"})
			}
			if m == nil {
				panic(Unsupported{"no model available to concretise " + what})
			}
			st.setModel(m)
		}
		v = st.ev.Eval(n)
		eq := st.b.Eq(n, st.b.Const(n.W, v))
		// is there another value?
		okOther, mOther := st.feasible(st.b.BNot(eq))
		if okOther {
			if st.spec != nil {
				panic(specAbort{"concretisation fork inside speculation"})
			}
			// choice point: the alternative continues the enumeration with n != v added.
			// Implemented by re-running the instruction with the exclusion recorded in the path condition.
			st.flushObligs()
			cp := &choicePoint{trailMark: st.instrMark, gs: copyGs(st.gs), curID: st.cur.id,
				pc:     &pcList{cond: st.b.BNot(eq), prev: st.pc, n: pcLen(st.pc) + 1},
				prefix: append([]int(nil), st.decisions...), alts: []altern{{-1, mOther, nil}}, serial: st.serial, mapDesc: st.mapDesc}
			cp.lockOwner = map[*Object]int{}
			for k, v := range st.lockOwner {
				cp.lockOwner[k] = v
			}
			st.cps = append(st.cps, cp)
			st.res.Forks++
		}
		st.decisions = append(st.decisions, int(v))
		st.pushPC(eq)
		return v
	}
}

func pcLen(p *pcList) int {
	if p == nil {
		return 0
	}
	return p.n
}

// ---------------------------------------------------------------- obligations

func (st *State) addOblig(kind, label string, cond *term.Node) {
	if st.guard != nil && kind != "cover" {
		cond = st.b.Implies(st.guard, cond)
	}
	if cond == st.b.True && kind != "cover" {
		st.res.TrivialVCs++
		return
	}
	if kind == "cover" {
		if st.res.CoverHit[label] {
			return
		}
		if cond == st.b.False {
			return
		}
		if v, ok := st.evalBool(cond); ok && v {
			st.res.CoverHit[label] = true
			return
		}
		st.obligs = append(st.obligs, Obligation{Kind: kind, Label: label, Pos: st.where(), PC: st.pc, Cond: cond})
		return
	}
	// known findings split the obligation: outside the finding's predicate it must hold,
	// inside it is expected to fail (and is reported as KNOWN-FINDING when it does).
	for i := range st.inst.Known {
		kf := &st.inst.Known[i]
		if !strings.Contains(label, kf.Label) {
			continue
		}
		p := st.knownPred(kf)
		if p == nil {
			continue
		}
		st.obligs = append(st.obligs, Obligation{Kind: "known", Label: kf.ID + "|" + label, Pos: st.where(), PC: st.pc, Cond: st.b.Implies(p, cond)})
		cond = st.b.Implies(st.b.BNot(p), cond)
		if cond == st.b.True {
			return
		}
	}
	st.obligs = append(st.obligs, Obligation{Kind: kind, Label: label, Pos: st.where(), PC: st.pc, Cond: cond})
}

// knownPred builds the predicate of a known finding over the harness inputs
// (nil if one of its inputs does not exist on this path).
func (st *State) knownPred(kf *KnownPred) *term.Node {
	b := st.b
	p := b.True
	for _, c := range kf.Constraints {
		var v *term.Node
		for _, iv := range st.inputVars {
			if iv.ID == c.Input {
				v = iv.Node
			}
		}
		if v == nil {
			if cv, ok := st.inst.Config[c.Input]; ok && strings.HasPrefix(c.Input, "") {
				v = b.Const(64, uint64(int64(cv)))
			} else {
				return nil
			}
		}
		k := b.Const(v.W, uint64(c.Value))
		var t *term.Node
		switch c.Op {
		case "==":
			t = b.Eq(v, k)
		case "!=":
			t = b.Ne(v, k)
		case "<":
			t = b.Slt(v, k)
		case "<=":
			t = b.Sle(v, k)
		case ">":
			t = b.Slt(k, v)
		case ">=":
			t = b.Sle(k, v)
		default:
			return nil
		}
		if v.W == 0 {
			if c.Op == "==" {
				t = b.Eq(v, b.Bool(c.Value != 0))
			} else {
				t = b.Ne(v, b.Bool(c.Value != 0))
			}
		}
		p = b.BAnd(p, t)
	}
	return p
}

// flushObligs sends buffered obligations (grouped by identical path condition) to the pool.
func (st *State) flushObligs() {
	if len(st.obligs) == 0 {
		return
	}
	obs := st.obligs
	st.obligs = nil
	i := 0
	for i < len(obs) {
		j := i
		var grp []Obligation
		single := func(k string) bool { return k == "cover" || k == "known" }
		for j < len(obs) && obs[j].PC == obs[i].PC && !single(obs[j].Kind) && !single(obs[i].Kind) && len(grp) < st.inst.VCBatch {
			grp = append(grp, obs[j])
			j++
		}
		if len(grp) == 0 { // cover
			grp = []Obligation{obs[i]}
			j = i + 1
		}
		st.submit(grp)
		i = j
	}
}

func (st *State) describeInputs(m map[string]uint64) map[string]uint64 {
	out := map[string]uint64{}
	for _, iv := range st.inputVars {
		if v, ok := m[iv.Node.Name]; ok {
			out[iv.ID] = v
		}
	}
	return out
}

func sortedKeys(m map[string]uint64) []string {
	var ks []string
	for k := range m {
		ks = append(ks, k)
	}
	sort.Strings(ks)
	return ks
}

func fmtModel(m map[string]uint64) string {
	var sb strings.Builder
	for _, k := range sortedKeys(m) {
		fmt.Fprintf(&sb, "%s=%d ", k, m[k])
	}
	return sb.String()
}
