package main

import (
	"flag"
	"fmt"
	"os"
	"strconv"
	"strings"
	"time"

	"vpengine/exec"
	"vpengine/smt"
)

func main() {
	repo := flag.String("repo", "/repo", "repository under test")
	harness := flag.String("harness", "/verif/harness", "harness directory")
	run := flag.String("run", "", "pkg:Func to run ad hoc")
	cfg := flag.String("cfg", "", "k=v,k=v config for -run")
	z3 := flag.String("z3", "z3-new", "solver binary")
	keep := flag.Bool("keep", false, "keep scratch dir")
	flag.Parse()

	scratch, err := os.MkdirTemp("", "vp-scratch-")
	if err != nil {
		fatal(err)
	}
	if !*keep {
		defer os.RemoveAll(scratch)
	}
	if err := exec.CopyTree(*repo, scratch); err != nil {
		fatal(err)
	}
	if _, err := exec.InstallHarness(*harness, scratch, false); err != nil {
		fatal(err)
	}
	t0 := time.Now()
	prog, err := exec.Load(scratch)
	if err != nil {
		fatal(err)
	}
	fmt.Printf("loaded in %.1fs\n", time.Since(t0).Seconds())
	pool, err := smt.NewPool(*z3, 8, "-in")
	if err != nil {
		fatal(err)
	}
	defer pool.Close()
	if *run != "" {
		parts := strings.SplitN(*run, ":", 2)
		inst := &exec.Instance{Name: *run, Pkg: parts[0], Func: parts[1], Config: map[string]int{}}
		for _, kv := range strings.Split(*cfg, ",") {
			if kv == "" {
				continue
			}
			p := strings.SplitN(kv, "=", 2)
			v, _ := strconv.Atoi(p[1])
			inst.Config[p[0]] = v
		}
		res := exec.RunInstance(prog, inst, exec.Solvers{Path: *z3, Pool: pool})
		v := res.Verdict()
		fmt.Printf("paths=%d infeasible=%d forks=%d merges=%d aborts=%d steps=%d vcs=%d trivial=%d feasq=%d (%.2fs) solver=%.2fs wall=%.2fs nodes=%d\n",
			res.Paths, res.Infeasible, res.Forks, res.Merges, res.MergeAborts, res.Steps, res.VCs, res.TrivialVCs, res.FeasQueries, res.FeasSecs, res.SolverSecs, res.Wall, res.NodeCount)
		for _, e := range v.Inconclusive {
			fmt.Println("INCONCLUSIVE:", e)
		}
		for _, vi := range v.Violations {
			fmt.Printf("VIOLATION-CANDIDATE: %s %q at %s inputs=%v\n", vi.Kind, vi.Label, vi.Pos, vi.Inputs)
		}
		fmt.Println("covers:", res.CoverHit)
		if v.OK {
			fmt.Println("OK")
		}
	}
}

func fatal(err error) {
	fmt.Fprintln(os.Stderr, "vpcheck:", err)
	os.Exit(2)
}
