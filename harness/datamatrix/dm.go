package datamatrix

import (
	"image"
	"image/color"

	"github.com/boombuler/barcode"
)

// C02 / C12 / C13 harnesses for DataMatrix ECC 200. Reference model: oracle_dm.go.

type vpCol struct{ id int }

func (c vpCol) RGBA() (r, g, b, a uint32) { return uint32(c.id), 0, 0, 0xffff }

func vpSizeOf(s *dmCodeSize) ([6]int, bool) {
	for _, e := range vpDMSizes() {
		if e[0] == s.Rows {
			ok := s.Columns == e[0] && s.RegionCountHorizontal == e[1] && s.RegionCountVertical == e[1] && s.ECCCount == e[3] && s.BlockCount == e[4] &&
				s.DataCodewords() == e[2] && s.RegionRows() == e[5] && s.RegionColumns() == e[5]
			return e, ok
		}
	}
	return [6]int{}, false
}

// the library's size table is the ISO/IEC 16022 table of the 24 square ECC 200 symbols
func VP_DM_sizes() {
	ref := vpDMSizes()
	vpAssert(len(codeSizes) == len(ref), "24 square sizes")
	for i, s := range codeSizes {
		if i < len(ref) {
			e, ok := vpSizeOf(s)
			vpAssert(ok && e == ref[i], "size table row equals ISO/IEC 16022 Table 7 (size, regions, data and error codewords, blocks), in increasing order")
		}
	}
	vpCover("reached", true)
}

// DM-A: ASCII encodation of symbolic bytes decodes back to the bytes
func VP_DM_text() {
	n := vpConfig("n")
	content := vpString("c", n)
	cw := encodeText(content)
	ints := make([]int, len(cw))
	for i, b := range cw {
		ints[i] = int(b)
	}
	out, outLen, ok := vpDMDecodeASCII(ints, len(ints))
	vpAssert(ok, "the codewords are a well-formed ASCII encodation (characters, digit pairs, upper shift)")
	vpAssert(outLen == n, "the encodation decodes to as many bytes as were given")
	if ok && outLen == n {
		for i := 0; i < n; i++ {
			vpAssert(out[i] == int(content[i]), "decoding the ASCII encodation yields the content byte for byte")
		}
	}
	vpAssert(len(cw) <= 2*n, "at most two codewords per byte")
	// C13: the size choice rests on the encodation being as short as ASCII encodation allows: every
	// run of digits is packed into floor(length/2) pair codewords, bytes >= 128 take two codewords
	pairs, high, open := 0, 0, false
	for i := 0; i < n; i++ {
		c := content[i]
		if c >= '0' && c <= '9' {
			if open {
				pairs++
				open = false
			} else {
				open = true
			}
		} else {
			open = false
		}
		if c >= 128 {
			high++
		}
	}
	vpAssert(len(cw) == n+high-pairs, "the ASCII encodation has the minimal length (all digit pairs packed)")
	if n >= 2 {
		vpCover("digit-pair", len(cw) < n)
	}
	if n >= 1 {
		vpCover("upper-shift", len(cw) > n)
	}
}

// padding: 129 then 253-state randomised pads, for every data length below each capacity
func VP_DM_pad() {
	cap0 := vpConfig("cap")
	for l := 0; l <= cap0; l++ {
		data := make([]byte, l)
		for i := range data {
			data[i] = byte(1 + i%100)
		}
		res := addPadding(data, cap0)
		want := vpDMPadding(l, cap0)
		vpAssert(len(res) == cap0 && len(want) == cap0-l, "padding fills the symbol's data capacity")
		if len(res) == cap0 && len(want) == cap0-l {
			for i := 0; i < l; i++ {
				vpAssert(res[i] == data[i], "data codewords are kept")
			}
			for i := l; i < cap0; i++ {
				vpAssert(int(res[i]) == want[i-l], "first pad 129, following pads randomised by the 253-state algorithm at their position")
			}
		}
	}
	vpCover("reached", true)
}

func vpSizeByIndex(i int) (*dmCodeSize, [6]int) {
	return codeSizes[i], vpDMSizes()[i]
}

// DM-B: block-interleaved Reed-Solomon for symbolic data codewords
func VP_DM_ecc() {
	s, e := vpSizeByIndex(vpConfig("size"))
	_, ok := vpSizeOf(s)
	vpAssert(ok, "size row equals the ISO table")
	data := vpBytes("d", e[2])
	// big symbols: only every stride-th data codeword stays symbolic, the others are fixed non-zero
	// values (the block structure, buffer handling and interleave are what is under test there)
	if stride := vpConfig("stride"); stride > 1 {
		for i := range data {
			if i%stride != 0 {
				data[i] = byte(37*i + 11)
			}
		}
	}
	given := make([]int, e[2])
	for i, b := range data {
		given[i] = int(b)
	}
	res := ec.calcECC(data, s)
	want := vpDMInterleavedECC(e, given)
	vpAssert(len(res) == e[2]+e[3] && len(want) == e[2]+e[3], "data codewords followed by the ECC 200 number of check codewords")
	if len(res) == len(want) {
		for i := range res {
			vpAssert(int(res[i]) == want[i], "codeword i: data unchanged, check codewords of block b at positions data+b+k*blocks, each block Reed-Solomon over GF(256)/0x12D")
		}
	}
	vpCover("reached", true)
}

func vpCheckImage(code *datamatrixCode, e [6]int, codewords []int, scheme barcode.ColorScheme) {
	vpAssert(code.Bounds() == image.Rect(0, 0, e[0], e[0]), "bounds are (0,0)-(size,size)")
	if code.Bounds().Dx() != e[0] || code.Bounds().Dy() != e[0] {
		return
	}
	want := vpDMMatrix(e, codewords)
	for x := 0; x < e[0]; x++ {
		for y := 0; y < e[0]; y++ {
			vpAssert(code.get(x, y) == want[x][y], "module equals the ISO/IEC 16022 layout (L finder and clock track per region, Annex F placement incl. corner cases and the fixed lower-right pattern)")
		}
	}
	px, py := vpIntRange("px", 0, e[0]-1), vpIntRange("py", 0, e[0]-1)
	c := code.At(px, py)
	vpAssert((c == scheme.Foreground) == code.get(px, py) && (c == scheme.Background) == !code.get(px, py), "pixels are exactly foreground (dark) or background")
}

// DM-C: placement and finder for symbolic codewords
func VP_DM_render() {
	s, e := vpSizeByIndex(vpConfig("size"))
	n := e[2] + e[3]
	cw := vpBytes("cw", n)
	ints := make([]int, n)
	for i, b := range cw {
		ints[i] = int(b)
	}
	scheme := barcode.ColorScheme{Model: color.RGBAModel, Foreground: vpCol{1}, Background: vpCol{2}}
	code := render(cw, s, scheme)
	vpAssert(code != nil, "render returns a symbol")
	if code == nil {
		return
	}
	vpCheckImage(code, e, ints, scheme)
	vpCover("reached", true)
}

// DM-E: the public entry point on symbolic content
func VP_DM_e2e() {
	n := vpConfig("n")
	content := vpString("c", n)
	switch vpConfig("class") {
	case 1: // letters: one codeword per byte
		for i := 0; i < n; i++ {
			vpAssume(content[i] >= 'A' && content[i] <= 'Z')
		}
	case 2: // high bytes: two codewords per byte
		for i := 0; i < n; i++ {
			vpAssume(content[i] >= 128)
		}
	}
	scheme := barcode.ColorScheme16
	var bc barcode.Barcode
	var err error
	if vpConfig("color") == 1 {
		scheme = barcode.ColorScheme{Model: color.GrayModel, Foreground: vpCol{1}, Background: vpCol{2}}
		bc, err = EncodeWithColor(content, scheme)
	} else {
		bc, err = Encode(content)
	}
	vpAssert((bc == nil) != (err == nil), "exactly one of barcode and error is nil")
	data := encodeText(content) // discharged against the reference decoder by VP_DM_text
	ref := vpDMSizes()
	want := -1
	for i := len(ref) - 1; i >= 0; i-- {
		if ref[i][2] >= len(data) {
			want = i
		}
	}
	if want < 0 {
		vpAssert(err != nil, "more than 1558 codewords is rejected")
		vpCover("too-much", true)
		return
	}
	vpAssert(err == nil && bc != nil, "content that fits the largest symbol is accepted")
	if bc == nil {
		return
	}
	vpAssert(bc.Content() == content, "Content is the text")
	md := bc.Metadata()
	vpAssert(md.CodeKind == "DataMatrix" && md.Dimensions == 2, "metadata says DataMatrix, 2D")
	vpAssert(bc.ColorModel() == scheme.Model, "ColorModel is the scheme's model")
	if cs, ok := bc.(barcode.BarcodeColor); ok {
		g := cs.ColorScheme()
		vpAssert(g.Model == scheme.Model && g.Foreground == scheme.Foreground && g.Background == scheme.Background, "ColorScheme() reports the scheme in force")
	} else {
		vpAssert(false, "DataMatrix barcodes expose their colour scheme")
	}
	code, isDM := bc.(*datamatrixCode)
	vpAssert(isDM, "the barcode is the package's symbol type")
	if !isDM {
		return
	}
	e := ref[want]
	vpAssert(code.Bounds().Dx() == e[0], "the smallest square size holding the ASCII encodation is chosen")
	if code.Bounds().Dx() != e[0] {
		return
	}
	full := make([]int, 0, e[2])
	for _, b := range data {
		full = append(full, int(b))
	}
	full = append(full, vpDMPadding(len(data), e[2])...)
	vpCheckImage(code, e, vpDMInterleavedECC(e, full), scheme)
	vpCover("accepted", true)
}


// C15 / C16: purity and lock discipline
func VP_DM_pure() {
	n := vpConfig("n")
	content := vpString("c", n)
	vpTrackGlobals()
	a, errA := Encode(content)
	_, _ = Encode("some other, longer content 0123456789")
	b, errB := Encode(content)
	vpAssert((errA == nil) == (errB == nil), "the same call succeeds or fails the same way every time")
	if errA == nil && errB == nil {
		vpAssert(a.Bounds() == b.Bounds() && a.Content() == b.Content(), "the same call returns the same barcode whatever was encoded before")
		if a.Bounds() == b.Bounds() {
			for x := 0; x < a.Bounds().Dx(); x++ {
				for y := 0; y < a.Bounds().Dy(); y++ {
					vpAssert(a.At(x, y) == b.At(x, y), "the same call returns the same pixels whatever was encoded before")
				}
			}
		}
	}
	vpAssert(vpGlobalWrites() == 0, "no package-level state is written outside the generator-polynomial cache lock")
	vpCover("reached", true)
}

func VP_DM_rslock() {
	s1, s2 := codeSizes[vpConfig("s1")], codeSizes[vpConfig("s2")]
	mk := func(s *dmCodeSize) []byte {
		d := make([]byte, s.DataCodewords())
		for i := range d {
			d[i] = byte(17*i + 3)
		}
		return d
	}
	fresh := newErrorCorrection().calcECC(mk(s2), s2)
	vpTrackGlobals()
	_ = ec.calcECC(mk(s1), s1)
	got := ec.calcECC(mk(s2), s2)
	vpAssert(len(got) == len(fresh), "codeword count does not depend on history")
	for i := range got {
		if i < len(fresh) {
			vpAssert(got[i] == fresh[i], "codewords from the shared encoder equal those of a fresh encoder")
		}
	}
	vpAssert(vpGlobalWrites() == 0, "the shared generator cache is only written while its mutex is held")
	vpCover("reached", true)
}
