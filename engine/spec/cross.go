package spec

import "vpengine/exec"

// Obligations that belong only to the cross-cutting properties (C15 purity, C16 concurrency
// hygiene). The per-symbology obligations carry their C10..C14 tags themselves.
func init() {
	pureStub := "vpTrackGlobals: every object reachable from package-level variables of the repository is recorded after package initialisation; a later store into one of them (or an insert into a reachable map) by a goroutine that does not hold a mutex is logged"
	for _, pk := range []string{"ean", "code128", "code39", "code93", "codabar", "twooffive"} {
		pk := pk
		reg(&Oblig{ID: "PURE-" + pk, Pkg: pk, Func: "VP_PURE", Props: []string{"C15", "C16"},
			Desc:  "the same call before and after an unrelated call: same error behaviour, same pixels and Content; no write to package-level state",
			Stubs: []string{pureStub},
			Bound: "content = 1 symbolic character of the symbology's alphabet class (EAN: 7 digits)",
			Configs: func(tier string, seed int64) []map[string]int {
				if pk == "ean" {
					return one("n", 7)
				}
				if tier == "thorough" {
					return one("n", 1, 2)
				}
				return one("n", 1)
			}})
	}
	for _, pk := range [][2]string{{"code39", "VP_C39_maporder"}, {"code93", "VP_C93_maporder"}} {
		reg(&Oblig{ID: "MAPORDER-" + pk[0], Pkg: pk[0], Func: pk[1], Props: []string{"C15"}, Desc: "check character search over the character table map: same result under ascending and descending iteration order (values are unique)",
			Stubs: []string{"map range order: ascending keys by default, vpMapOrder(true) = descending (first-match loops differ exactly when two entries match)"},
			Bound: "content = n <= 2 symbolic characters of the basic alphabet (the searched value is symbolic over its whole range)", Configs: tiered(one("n", 0, 1, 2), one("n", 0, 1, 2, 3))})
	}
	rsq := func(in *exec.Instance, tier string) {
		in.Redirect = map[string]string{rsEncode: "utils:VPRSEncodeSummary", qrPenalty: "qr:vpPenaltyFixed"}
	}
	rs := func(in *exec.Instance, tier string) {
		in.Redirect = map[string]string{rsEncode: "utils:VPRSEncodeSummary"}
	}
	reg(&Oblig{ID: "PURE-qr", Pkg: "qr", Func: "VP_QR_pure", Props: []string{"C15", "C16"}, Desc: "QR Encode on symbolic content, repeated around an unrelated call: same error behaviour; no write to package-level state outside the generator cache lock; no goroutine left behind on any path (IterateBytes, iterateModules x2, stringToAlphaIdx incl. its error paths)",
		Stubs: []string{pureStub, "Reed-Solomon summary and penalty stub as in QR-E; goroutines run as coroutines (Kahn producers); a goroutine still parked when the entry point has returned is a violation"},
		Bound: "n <= 1 symbolic byte x 4 levels (quick), n <= 2 (thorough)",
		Configs: func(tier string, seed int64) []map[string]int {
			top := 1
			if tier == "thorough" {
				top = 2
			}
			var out []map[string]int
			for n := 0; n <= top; n++ {
				for l := 0; l < 4; l++ {
					if n == top && l%2 == 1 && tier != "thorough" {
						continue
					}
					out = append(out, map[string]int{"n": n, "class": 0, "level": l})
				}
			}
			return out
		}, Tune: rsq})
	reg(&Oblig{ID: "REPEAT-qr", Pkg: "qr", Func: "VP_QR_repeat", Props: []string{"C15", "C16"}, Desc: "QR Encode on concrete sample contents with the real penalty function and the real shared Reed-Solomon cache: identical pixels when repeated after other calls; cache writes only under the mutex; mutex released; no goroutine left",
		Stubs: []string{pureStub, "concrete inputs (no solver involved): this obligation exercises the real calcPenalty and getPolynomial paths that the symbolic obligations cut away"},
		Bound: "5 sample contents x 4 levels",
		Configs: func(string, int64) []map[string]int {
			return cross(one("which", 0, 1, 2, 3, 4), one("level", 0, 1, 2, 3))
		}})
	reg(&Oblig{ID: "RSLOCK-qr", Pkg: "qr", Func: "VP_QR_rslock", Props: []string{"C15", "C16", "C17"}, Desc: "package-level QR Reed-Solomon encoder: results equal a fresh encoder's whatever degree was requested before; the cache is only written while its mutex is held; the mutex is released on return",
		Stubs: []string{pureStub, "sync.Mutex modelled as an owner flag; concrete data (the real getPolynomial / Multiply run)"}, Bound: "request pairs (d1, d2) over {7,10,13,17,30} x {7,10,22,28}",
		Configs: func(string, int64) []map[string]int {
			return cross(one("d1", 7, 10, 13, 17, 30), one("d2", 7, 10, 22, 28))
		}})
	reg(&Oblig{ID: "RSLOCK-dm", Pkg: "datamatrix", Func: "VP_DM_rslock", Props: []string{"C15", "C16", "C17"}, Desc: "package-level DataMatrix Reed-Solomon encoder: as RSLOCK-qr",
		Stubs: []string{pureStub, "sync.Mutex modelled as an owner flag; concrete data"}, Bound: "size pairs over {0,3,8,12} x {1,5,9,14}",
		Configs: func(string, int64) []map[string]int { return cross(one("s1", 0, 3, 8, 12), one("s2", 1, 5, 9, 14)) }})
	reg(&Oblig{ID: "PURE-dm", Pkg: "datamatrix", Func: "VP_DM_pure", Props: []string{"C15", "C16"}, Desc: "DataMatrix Encode on symbolic content repeated around an unrelated call: same pixels, Content, error behaviour; no unlocked write to package-level state",
		Stubs: []string{pureStub, "Reed-Solomon summary"}, Bound: "n <= 2 symbolic bytes", Configs: tiered(one("n", 0, 1, 2), one("n", 0, 1, 2, 3)), Tune: rs})
	reg(&Oblig{ID: "PURE-az", Pkg: "aztec", Func: "VP_AZ_pure", Props: []string{"C15", "C16"}, Desc: "Aztec Encode on symbolic binary payload repeated around an unrelated call: same pixels, Content; no write to package-level state (each call builds its own field and encoder)",
		Stubs: []string{pureStub, "Reed-Solomon summary"}, Bound: "n <= 2 symbolic bytes >= 0x80", Configs: tiered(one("n", 1, 2), one("n", 1, 2, 3)), Tune: rs})
	reg(&Oblig{ID: "MAPORDER-az", Pkg: "aztec", Func: "VP_AZ_maporder", Props: []string{"C15"}, Desc: "Aztec high-level encoding of a symbolic byte after each prefix: same bit stream under ascending and descending map iteration order",
		Stubs: []string{"map range order: ascending keys by default, vpMapOrder(true) = descending"}, Bound: "1 symbolic byte after each of 13 prefixes (quick); 2 symbolic bytes from the initial state (thorough)",
		Configs: func(tier string, seed int64) []map[string]int {
			var out []map[string]int
			for p := 0; p <= 12; p++ {
				out = append(out, map[string]int{"n": 1, "prefix": p})
			}
			if tier == "thorough" {
				out = append(out, map[string]int{"n": 2, "prefix": 0})
			}
			return out
		},
		Tune: func(in *exec.Instance, tier string) {
			if tier == "thorough" {
				in.TimeLimit = 0
			}
		}})
	reg(&Oblig{ID: "PURE-pdf", Pkg: "pdf417", Func: "VP_PDF_pure", Props: []string{"C15", "C16"}, Desc: "PDF417 Encode on symbolic letters repeated around an unrelated call: same pixels, Content; no write to package-level state",
		Stubs: []string{pureStub}, Bound: "n in {1, 3} symbolic upper-case letters", Configs: tiered(one("n", 1, 3), one("n", 1, 3, 4)),
		Tune: func(in *exec.Instance, tier string) {
			in.Redirect = map[string]string{"(github.com/boombuler/barcode/pdf417.securitylevel).Compute": "pdf417:vpComputeStub"}
		}})
}
