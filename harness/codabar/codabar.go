package codabar

import (
	"image"
	"image/color"

	"github.com/boombuler/barcode"
)

// C08 (Codabar) with C10 / C11 side conditions.

// element widths of the 20 Codabar characters (bar, space, bar, space, bar, space, bar;
// 1 = wide), ANSI/AIM BC3 / ISO table; wide elements are two modules.
var vpCodabarChars = [20]byte{'0', '1', '2', '3', '4', '5', '6', '7', '8', '9', '-', '$', ':', '/', '.', '+', 'A', 'B', 'C', 'D'}
var vpCodabarWidths = [20]int{0x03, 0x06, 0x09, 0x60, 0x12, 0x42, 0x21, 0x24, 0x30, 0x48, 0x0C, 0x18, 0x45, 0x51, 0x54, 0x15, 0x1A, 0x29, 0x0B, 0x0E}

type vpCol struct{ id int }

func (c vpCol) RGBA() (r, g, b, a uint32) { return uint32(c.id), 0, 0, 0xffff }

// vpCharIndex returns the table index of c, or -1.
func vpCharIndex(c byte) int {
	idx := -1
	for k := 0; k < 20; k++ {
		if c == vpCodabarChars[k] {
			idx = k
		}
	}
	return idx
}

func VP_CODABAR() {
	n := vpConfig("n")
	content := vpString("c", n)
	scheme := barcode.ColorScheme16
	var bc barcode.Barcode
	var err error
	if vpConfig("color") == 1 {
		scheme = barcode.ColorScheme{Model: color.NRGBAModel, Foreground: vpCol{1}, Background: vpCol{2}}
		bc, err = EncodeWithColor(content, scheme)
	} else {
		bc, err = Encode(content)
	}
	vpAssert((bc == nil) != (err == nil), "exactly one of barcode and error is nil")
	// acceptance: start letter, body characters, stop letter
	valid := n >= 2
	for i := 0; i < n; i++ {
		c := content[i]
		letter := c >= 'A' && c <= 'D'
		body := (c >= '0' && c <= '9') || c == '-' || c == '$' || c == ':' || c == '/' || c == '.' || c == '+'
		if i == 0 || i == n-1 {
			valid = valid && letter
		} else {
			valid = valid && body
		}
	}
	if !valid {
		vpAssert(err != nil, "text that is not <A-D><0-9-$:/.+>*<A-D> is rejected")
		vpCover("rejected", true)
		return
	}
	vpAssert(err == nil && bc != nil, "well-formed Codabar text is accepted")
	if bc == nil {
		return
	}
	vpCover("accepted", true)
	vpAssert(bc.Content() == content, "Content is the text")
	md := bc.Metadata()
	vpAssert(md.CodeKind == "Codabar" && md.Dimensions == 1, "metadata says Codabar, 1D")
	vpAssert(bc.ColorModel() == scheme.Model, "ColorModel is the scheme's model")
	if cs, ok := bc.(barcode.BarcodeColor); ok {
		got := cs.ColorScheme()
		vpAssert(got.Model == scheme.Model && got.Foreground == scheme.Foreground && got.Background == scheme.Background, "ColorScheme() reports the scheme in force")
	} else {
		vpAssert(false, "Codabar barcodes expose their colour scheme")
	}
	// expected modules per character, expanded once (concretely) from the element-width table
	var mods [20]int
	var lens [20]int
	for k := 0; k < 20; k++ {
		w := vpCodabarWidths[k]
		m, l := 0, 0
		for e := 0; e < 7; e++ {
			bit := 0
			if e%2 == 0 {
				bit = 1
			}
			m = m<<1 | bit
			l++
			if (w>>uint(6-e))&1 == 1 {
				m = m<<1 | bit
				l++
			}
		}
		mods[k], lens[k] = m, l
	}
	width := bc.Bounds().Dx()
	vpAssert(bc.Bounds() == image.Rect(0, 0, width, 1), "bounds are (0,0)-(modules,1)")
	pos := 0
	for i := 0; i < n; i++ {
		idx := vpCharIndex(content[i])
		l := vpConcretize(lens[idx]) // 9 or 10 modules
		m := mods[idx]
		for k := 0; k < l; k++ {
			bar := (m>>uint(l-1-k))&1 == 1
			if pos+k < width {
				px := bc.At(pos+k, 0)
				vpAssert((px == scheme.Foreground) == bar, "module is a bar exactly where the character's pattern has one")
				vpAssert((px == scheme.Background) == !bar, "pixels are exactly foreground or background")
			}
		}
		pos += l
		if i < n-1 {
			if pos < width {
				vpAssert(bc.At(pos, 0) == scheme.Background, "one-module gap between characters")
			}
			pos++
		}
	}
	vpAssert(pos == width, "total width is the sum of the character widths and gaps")
}


// C15 / C16: purity (deterministic, history-free, no package-level writes)
func VP_PURE() {
	n := vpConfig("n")
	content := vpString("c", n)
	for i := 0; i < n; i++ {
		vpAssume(content[i] >= '0' && content[i] <= '9')
	}
	vpTrackGlobals()
	a, errA := Encode("A" + content + "B")
	_, _ = Encode("C123D")
	b, errB := Encode("A" + content + "B")
	vpAssert((errA == nil) == (errB == nil), "the same call succeeds or fails the same way every time ")
	if errA == nil && errB == nil {
		vpAssert(a.Bounds() == b.Bounds() && a.Content() == b.Content(), "the same call returns the same barcode whatever was encoded before")
		if a.Bounds() == b.Bounds() {
			for x := 0; x < a.Bounds().Dx(); x++ {
				vpAssert(a.At(x, 0) == b.At(x, 0), "the same call returns the same pixels whatever was encoded before")
			}
		}
	}
	vpAssert(vpGlobalWrites() == 0, "no package-level state is written")
	vpCover("reached", true)
}
