// Package spec is the registry of proof obligations: which harness functions
// exist, with which configurations they are run in each tier, and which
// properties each obligation is reported under.
package spec

import (
	"fmt"
	"sort"
	"strings"

	"vpengine/exec"
)

// Oblig is one family of harness instances.
type Oblig struct {
	ID    string
	Pkg   string
	Func  string
	Props []string
	Desc  string
	Real  []string // repo functions executed symbolically (documentation for the evidence file)
	Stubs []string // stubs / summaries / assumptions in force
	Bound string   // human-readable statement of the bound
	// Configs returns the configurations for a tier.
	Configs func(tier string, seed int64) []map[string]int
	Tune    func(in *exec.Instance, tier string)
}

var registry []*Oblig

func reg(o *Oblig) { registry = append(registry, o) }

// All returns every registered obligation.
func All() []*Oblig { return registry }

// ForProperty lists the obligations reported under a property.
func ForProperty(prop string) []*Oblig {
	var out []*Oblig
	for _, o := range registry {
		for _, p := range o.Props {
			if p == prop {
				out = append(out, o)
				break
			}
		}
	}
	return out
}

// Instances expands obligations into runnable instances.
func Instances(obs []*Oblig, tier string, seed int64) []*exec.Instance {
	var out []*exec.Instance
	for _, o := range obs {
		cfgs := []map[string]int{{}}
		eff := EffectiveTier(o.ID, tier)
		if o.Configs != nil {
			cfgs = o.Configs(eff, seed)
		}
		for _, c := range cfgs {
			in := &exec.Instance{Name: o.ID + cfgName(c), Pkg: o.Pkg, Func: o.Func, Config: c, Oblig: o.ID, Props: o.Props}
			if tier == "thorough" && thoroughDrop[in.Name] {
				continue
			}
			if o.Tune != nil {
				o.Tune(in, eff)
			}
			out = append(out, in)
		}
	}
	return out
}

func cfgName(c map[string]int) string {
	if len(c) == 0 {
		return ""
	}
	var ks []string
	for k := range c {
		ks = append(ks, k)
	}
	sort.Strings(ks)
	var parts []string
	for _, k := range ks {
		parts = append(parts, fmt.Sprintf("%s=%d", k, c[k]))
	}
	return "[" + strings.Join(parts, ",") + "]"
}

// helpers for configuration lists

func one(k string, vs ...int) []map[string]int {
	var out []map[string]int
	for _, v := range vs {
		out = append(out, map[string]int{k: v})
	}
	return out
}

func cross(a, b []map[string]int) []map[string]int {
	var out []map[string]int
	for _, x := range a {
		for _, y := range b {
			m := map[string]int{}
			for k, v := range x {
				m[k] = v
			}
			for k, v := range y {
				m[k] = v
			}
			out = append(out, m)
		}
	}
	return out
}

func rng(lo, hi int) []int {
	var out []int
	for i := lo; i <= hi; i++ {
		out = append(out, i)
	}
	return out
}

func tiered(quick, thorough []map[string]int) func(string, int64) []map[string]int {
	return func(tier string, _ int64) []map[string]int {
		if tier == "thorough" {
			return thorough
		}
		return quick
	}
}
