// Package smt drives external SMT solver processes over stdin/stdout.
package smt

import (
	"bufio"
	"fmt"
	"io"
	"os"
	"os/exec"
	"strconv"
	"strings"
	"sync"
	"time"
)

type Result int

const (
	Unsat Result = iota
	Sat
	Unknown // timeout, unknown, or any (error line
)

func (r Result) String() string { return [...]string{"unsat", "sat", "unknown"}[r] }

// Proc is one long-lived solver process.
type Proc struct {
	Bin   string
	Args  []string
	cmd   *exec.Cmd
	in    io.WriteCloser
	out   *bufio.Reader
	dead  bool
	Calls int
	Time  time.Duration
	mu    sync.Mutex
}

func Start(bin string, args ...string) (*Proc, error) {
	p := &Proc{Bin: bin, Args: args}
	if err := p.start(); err != nil {
		return nil, err
	}
	return p, nil
}

func (p *Proc) start() error {
	p.cmd = exec.Command(p.Bin, p.Args...)
	var err error
	if p.in, err = p.cmd.StdinPipe(); err != nil {
		return err
	}
	so, err := p.cmd.StdoutPipe()
	if err != nil {
		return err
	}
	p.cmd.Stderr = nil
	p.out = bufio.NewReaderSize(so, 1<<20)
	p.dead = false
	return p.cmd.Start()
}

func (p *Proc) Close() {
	if p.cmd != nil && p.cmd.Process != nil {
		p.in.Close()
		p.cmd.Process.Kill()
		p.cmd.Wait()
	}
	p.dead = true
}

func (p *Proc) restart() {
	p.Close()
	p.start()
}

const endMark = "@@VP-END@@"

// Exec sends a script and returns every output line up to the end marker. If
// the solver does not answer within hard, the process is killed and restarted.
func (p *Proc) Exec(script string, hard time.Duration) (lines []string, ok bool) {
	p.mu.Lock()
	defer p.mu.Unlock()
	if p.dead {
		if err := p.start(); err != nil {
			return nil, false
		}
	}
	t0 := time.Now()
	defer func() { p.Calls++; p.Time += time.Since(t0) }()
	done := make(chan struct{})
	var timedOut bool
	go func() {
		select {
		case <-done:
		case <-time.After(hard):
			timedOut = true
			p.cmd.Process.Kill()
		}
	}()
	_, err := io.WriteString(p.in, script+"\n(echo \""+endMark+"\")\n")
	if err == nil {
		for {
			var line string
			line, err = p.out.ReadString('\n')
			if err != nil {
				break
			}
			line = strings.TrimRight(line, "\r\n")
			if line == endMark || line == "\""+endMark+"\"" {
				break
			}
			lines = append(lines, line)
		}
	}
	close(done)
	if err != nil || timedOut {
		if d := os.Getenv("VP_DUMP"); d != "" {
			os.WriteFile(fmt.Sprintf("%s/hang-%d.smt2", d, time.Now().UnixNano()), []byte(script), 0o644)
		}
		p.restart()
		return lines, false
	}
	return lines, true
}

// Answer interprets the output of a script with exactly one check-sat followed
// (optionally) by one get-value. Any "(error" line makes the answer Unknown.
func Answer(lines []string, ok bool) (Result, map[string]uint64) {
	if !ok {
		return Unknown, nil
	}
	res := Unknown
	seen := false
	var rest []string
	for _, l := range lines {
		t := strings.TrimSpace(l)
		if strings.HasPrefix(t, "(error") {
			// errors after an unsat answer come from get-value / get-model and are harmless;
			// anything else is inconclusive
			if seen && res == Unsat && (strings.Contains(t, "model is not available") || strings.Contains(t, "get-value") || strings.Contains(t, "Cannot get")) {
				continue
			}
			return Unknown, nil
		}
		if !seen && (t == "sat" || t == "unsat" || t == "unknown" || t == "timeout") {
			seen = true
			switch t {
			case "sat":
				res = Sat
			case "unsat":
				res = Unsat
			}
			continue
		}
		if seen {
			rest = append(rest, l)
		}
	}
	if res != Sat {
		return res, nil
	}
	return res, ParseValues(strings.Join(rest, "\n"))
}

// ParseValues parses a get-value answer "((|a| #x01) (b true) ...)".
func ParseValues(s string) map[string]uint64 {
	out := map[string]uint64{}
	toks := tokenize(s)
	// pairs appear as ( name value ) at depth 2
	depth := 0
	for i := 0; i < len(toks); i++ {
		switch toks[i] {
		case "(":
			depth++
			if depth == 2 && i+2 < len(toks) {
				name := toks[i+1]
				name = strings.Trim(name, "|")
				j := i + 2
				if toks[j] == "(" { // (_ bv12 8) or (- 3)
					if j+3 < len(toks) && toks[j+1] == "_" && strings.HasPrefix(toks[j+2], "bv") {
						v, _ := strconv.ParseUint(toks[j+2][2:], 10, 64)
						out[name] = v
					}
				} else {
					out[name] = parseLit(toks[j])
				}
			}
		case ")":
			depth--
		}
	}
	return out
}

func parseLit(t string) uint64 {
	switch {
	case t == "true":
		return 1
	case t == "false":
		return 0
	case strings.HasPrefix(t, "#x"):
		v, _ := strconv.ParseUint(t[2:], 16, 64)
		return v
	case strings.HasPrefix(t, "#b"):
		v, _ := strconv.ParseUint(t[2:], 2, 64)
		return v
	}
	v, _ := strconv.ParseUint(t, 10, 64)
	return v
}

func tokenize(s string) []string {
	var toks []string
	i := 0
	for i < len(s) {
		c := s[i]
		switch {
		case c == '(' || c == ')':
			toks = append(toks, string(c))
			i++
		case c == ' ' || c == '\n' || c == '\t' || c == '\r':
			i++
		case c == '|':
			j := strings.IndexByte(s[i+1:], '|')
			if j < 0 {
				return toks
			}
			toks = append(toks, s[i:i+j+2])
			i += j + 2
		default:
			j := i
			for j < len(s) && !strings.ContainsRune("() \n\t\r", rune(s[j])) {
				j++
			}
			toks = append(toks, s[i:j])
			i = j
		}
	}
	return toks
}

// Pool runs verification conditions on a set of solver processes.
type Pool struct {
	procs chan *Proc
	all   []*Proc
	Bin   string
}

func NewPool(bin string, n int, args ...string) (*Pool, error) {
	pl := &Pool{procs: make(chan *Proc, n), Bin: bin}
	for i := 0; i < n; i++ {
		p, err := Start(bin, args...)
		if err != nil {
			return nil, err
		}
		pl.all = append(pl.all, p)
		pl.procs <- p
	}
	return pl, nil
}

// Solve runs one self-contained script (declarations, asserts, check-sat,
// get-value) after a (reset).
func (pl *Pool) Solve(script string, timeoutMs int) (Result, map[string]uint64, time.Duration) {
	p := <-pl.procs
	defer func() { pl.procs <- p }()
	t0 := time.Now()
	pre := fmt.Sprintf("(reset)\n(set-option :timeout %d)\n", timeoutMs)
	if strings.Contains(p.Bin, "cvc5") {
		pre = "(reset)\n(set-logic ALL)\n"
	}
	lines, ok := p.Exec(pre+script, time.Duration(timeoutMs)*time.Millisecond+5*time.Second)
	r, m := Answer(lines, ok)
	return r, m, time.Since(t0)
}

func (pl *Pool) Stats() (calls int, total time.Duration) {
	for _, p := range pl.all {
		calls += p.Calls
		total += p.Time
	}
	return
}

func (pl *Pool) Close() {
	for _, p := range pl.all {
		p.Close()
	}
}
