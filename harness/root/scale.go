package barcode

import (
	"image"
	"image/color"
)

// C09: Scale / ScaleWithFill. The source barcode is a stub whose pixels are an
// uninterpreted function of (x, y); widths, heights and the queried pixels are
// solver variables.

type vpColor struct{ id int }

func (c vpColor) RGBA() (r, g, b, a uint32) { return uint32(c.id), 0, 0, 0xffff }

type vpSrc struct {
	w, h int
	dims byte
}

func (s *vpSrc) ColorModel() color.Model { return color.Gray16Model }
func (s *vpSrc) Bounds() image.Rectangle { return image.Rect(0, 0, s.w, s.h) }
func (s *vpSrc) At(x, y int) color.Color { return vpColor{vpUF("src", x, y)} }
func (s *vpSrc) Metadata() Metadata      { return Metadata{"vp-kind", s.dims} }
func (s *vpSrc) Content() string         { return "vp-content" }

type vpSrcCS struct {
	vpSrc
	cs int
}

func (s *vpSrcCS) CheckSum() int { return s.cs }

type vpSrcColor struct {
	vpSrcCS
	scheme ColorScheme
}

func (s *vpSrcColor) ColorScheme() ColorScheme { return s.scheme }

const vpBG = 1000001

// vpMakeSrc builds the source variant selected by the configuration:
// 0 plain, 1 with CheckSum, 2 with CheckSum and ColorScheme.
func vpMakeSrc(ow, oh int, dims byte) Barcode {
	base := vpSrc{ow, oh, dims}
	switch vpConfig("variant") {
	case 1:
		return &vpSrcCS{base, vpInt("cs")}
	case 2:
		return &vpSrcColor{vpSrcCS{base, vpInt("cs")}, ColorScheme{color.Gray16Model, vpColor{vpBG}, vpColor{vpBG + 1}}}
	}
	return &base
}

// expected pixel under left/top margins lx, ly and factor f
func vpWant(src Barcode, ow, oh, f, lx, ly, x, y int, fill color.Color, oneD bool) color.Color {
	if x < lx || x >= lx+ow*f {
		return fill
	}
	if oneD {
		return src.At((x-lx)/f, 0)
	}
	if y < ly || y >= ly+oh*f {
		return fill
	}
	return src.At((x-lx)/f, (y-ly)/f)
}

func vpCheckAccessors(src, res Barcode) {
	vpAssert(res.Content() == src.Content(), "Content is forwarded")
	vpAssert(res.Metadata() == src.Metadata(), "Metadata is forwarded")
	vpAssert(res.ColorModel() == src.ColorModel(), "ColorModel is forwarded")
	srcCS, srcHas := src.(BarcodeIntCS)
	resCS, resHas := res.(BarcodeIntCS)
	vpAssert(srcHas == resHas, "the result exposes CheckSum exactly when the source does")
	if srcHas && resHas {
		vpAssert(resCS.CheckSum() == srcCS.CheckSum(), "CheckSum is forwarded")
	}
}

// The requested size is parameterised by the scale factor: with f the factor the
// property prescribes, the limiting axis is  size = org*f + m  (0 <= m < org) and the
// other axis is  org*f + e  (e >= 0 arbitrary). Every (width, height) >= 1 has exactly
// one such description, so enumerating f (configuration) with m, e symbolic covers all
// requests whose factor is in the enumerated set. f = 0 is the error case.
func vpScaleSizes(ow, oh int, oneD bool) (w, h, f int) {
	f = vpConfig("f")
	maxe := vpConfig("maxe")
	if oneD {
		w = ow*f + vpIntRange("mx", 0, ow-1)
		h = vpIntRange("h", 1, maxe)
		return
	}
	if vpConfig("axis") == 0 { // width limits the factor
		w = ow*f + vpIntRange("mx", 0, ow-1)
		h = oh*f + vpIntRange("ey", 0, maxe)
	} else {
		w = ow*f + vpIntRange("ex", 0, maxe)
		h = oh*f + vpIntRange("my", 0, oh-1)
	}
	return
}

func vpScaleCommon(oneD bool) {
	ow, oh := vpConfig("ow"), vpConfig("oh")
	dims := byte(2)
	if oneD {
		dims = 1
	}
	src := vpMakeSrc(ow, oh, dims)
	w, h, f := vpScaleSizes(ow, oh, oneD)
	vpAssume(w >= 1 && h >= 1)
	var res Barcode
	var err error
	var fill color.Color
	if vpConfig("deffill") == 1 {
		res, err = Scale(src, w, h)
		fill = color.White
		if vpConfig("variant") == 2 {
			fill = vpColor{vpBG}
		}
	} else {
		fill = vpColor{vpInt("fill")}
		res, err = ScaleWithFill(src, w, h, fill)
	}
	if f < 1 {
		vpAssert(err != nil && res == nil, "a request smaller than the symbol in a scaled dimension is an error")
		vpCover("too-small", true)
		return
	}
	vpAssert(err == nil && res != nil, "a request that fits succeeds")
	if res == nil {
		return
	}
	vpAssert(res.Bounds() == image.Rect(0, 0, w, h), "bounds are (0,0)-(width,height)")
	vpCheckAccessors(src, res)
	// the block grid is centred to within one pixel: one of the four floor/ceil margin
	// combinations explains every pixel. Negation: four pixels, one refuting each combination.
	mx := w - ow*f
	my := h - oh*f
	refuted := true
	for k := 0; k < 4; k++ {
		lx := mx / 2
		if k&1 == 1 {
			lx = (mx + 1) / 2
		}
		ly := my / 2
		if k&2 == 2 {
			ly = (my + 1) / 2
		}
		if oneD && k >= 2 {
			break
		}
		x := vpInt(vpPx("x", k))
		y := vpInt(vpPx("y", k))
		vpAssume(x >= 0 && x < w && y >= 0 && y < h)
		got := res.At(x, y)
		want := vpWant(src, ow, oh, f, lx, ly, x, y, fill, oneD)
		refuted = refuted && got != want
	}
	vpAssert(!refuted, "every pixel is fill or the source module of its f-by-f block, for one centred placement of the grid")
	vpCover("margin", mx > 1 || my > 1)
}

func vpPx(p string, k int) string { return p + string(rune('0'+k)) }

func VP_SCALE_2d() { vpScaleCommon(false) }
func VP_SCALE_1d() { vpScaleCommon(true) }

// other dimensionalities are refused
func VP_SCALE_dims() {
	d := vpByte("dims")
	vpAssume(d != 1 && d != 2)
	src := &vpSrc{5, 5, d}
	res, err := ScaleWithFill(src, vpIntRange("w", 1, 1000), vpIntRange("h", 1, 1000), vpColor{1})
	vpAssert(res == nil && err != nil, "unknown dimensionality is refused")
	vpCover("reached", true)
}

// the result of scaling is again a well-formed source (inductive step for chains)
func VP_SCALE_chain() {
	ow, oh := vpConfig("ow"), vpConfig("oh")
	src := vpMakeSrc(ow, oh, 2)
	w, h, _ := vpScaleSizes(ow, oh, false)
	res, err := Scale(src, w, h)
	vpAssert(err == nil, "a request that fits succeeds")
	if err != nil {
		return
	}
	b := res.Bounds()
	vpAssert(b.Min.X == 0 && b.Min.Y == 0 && b.Max.X == w && b.Max.Y == h && w >= 1 && h >= 1, "a scaled barcode has origin-based non-empty bounds")
	vpAssert(res.Metadata().Dimensions == 2, "dimensionality is preserved for the next round")
	_, hasScheme := res.(BarcodeColor)
	vpAssert(!hasScheme || vpConfig("variant") == 2, "a scaled barcode exposes a colour scheme only if its source did")
	// second round on the result, concrete second size, checks accessors through two layers
	res2, err2 := Scale(res, w*2, h*3)
	vpAssert(err2 == nil && res2 != nil, "scaling a scaled barcode up succeeds")
	if res2 != nil {
		vpCheckAccessors(src, res2)
		vpAssert(res2.Bounds() == image.Rect(0, 0, w*2, h*3), "bounds of the second round")
		// the second round enlarges the IMAGE it was given (factor 2, no horizontal margin, h rows of
		// vertical margin), not whatever that image was made from
		// default fill of the second round: the background of the image being scaled if THAT exposes a
		// colour scheme (the library's scaled wrappers do not: then white, as the property words it)
		var fill2 color.Color = color.White
		if v, ok := res.(BarcodeColor); ok {
			fill2 = v.ColorScheme().Background
		}
		x, y := vpInt("cx"), vpInt("cy")
		vpAssume(x >= 0 && x < 2*w && y >= 0 && y < 3*h)
		got := res2.At(x, y)
		ok := false
		for k := 0; k < 2; k++ {
			ly := h / 2
			if k == 1 {
				ly = (h + 1) / 2
			}
			var want color.Color = fill2
			if y >= ly && y < ly+2*h {
				want = res.At(x/2, (y-ly)/2)
			}
			ok = ok || got == want
		}
		vpAssert(ok, "the second round shows the first round's image enlarged by its own factor, centred")
	}
	// a request smaller than the scaled image it is given is an error, whatever the original size was
	res3, err3 := Scale(res, w-1, h)
	vpAssert(err3 != nil && res3 == nil, "a request narrower than the image to be scaled is refused")
	vpCover("reached", true)
}
