package exec

import (
	"fmt"
	"go/types"

	"golang.org/x/tools/go/ssa"

	"vpengine/term"
)

// Value is one of: *term.Node (integers, booleans), Float, Ptr, SymPtr, Slice,
// Str, Iface, *Closure, *MapObj, *ChanObj, Agg, Mux, *BigInt, *RangeIter.
type Value interface{}

type Float struct{ F float64 }

// RatF is the exact-rational abstraction of a float64 computed from
// integer-valued operands (see DESIGN, C09): value = min over Alts of N/D.
type RatF struct {
	N, D []*term.Node // parallel lists, 64-bit signed terms
}

// Object is a heap or stack cell block.
type Object struct {
	Serial int
	Cells  []Value
	Typ    types.Type
	Global *ssa.Global // non-nil for package-level variables
	Label  string
}

type Ptr struct {
	Obj *Object
	Off int
}

func (p Ptr) IsNil() bool { return p.Obj == nil }

// SymPtr addresses element Idx (symbolic) of N elements of ES cells each starting at Base (+Sub within the element).
type SymPtr struct {
	Obj    *Object
	Base   int
	ES     int
	N      int
	Idx    *term.Node // 64-bit
	Sub    int
	SubTyp types.Type
}

type Slice struct {
	Obj *Object
	Off int
	Len int
	Cap int
	ES  int
}

func (s Slice) IsNil() bool { return s.Obj == nil }

type Str struct{ B []*term.Node }

type Iface struct {
	T types.Type // nil => nil interface
	V Value
}

type Closure struct {
	Fn       *ssa.Function
	Bindings []Value
	Builtin  *ssa.Builtin
}

type MapObj struct {
	Serial int
	Keys   []Value // concrete keys in insertion order
	Vals   []Value
	KT, VT types.Type
}

type ChanObj struct {
	Serial int
	Closed bool
	// parked sender / receiver: goroutine ids (0 = none; the main goroutine never parks as id 0 is encoded as -1... see hasSend/hasRecv)
	SendG   int // goroutine id + 1 of the parked sender, 0 = none
	SendVal Value
	RecvG   int // goroutine id + 1 of the parked receiver, 0 = none
	ET      types.Type
}

// Agg is a struct, array or tuple value; never mutated in place.
type Agg []Value

// Mux is a guarded choice between values that cannot be merged into a term.
type Mux struct {
	G []*term.Node
	V []Value
}

// BigInt models *big.Int: an object holding a mathematical integer that is
// either concrete or (for SetString of symbolic digits) a digit list.
type BigInt struct {
	Obj *Object // one cell holding BigVal
}

type RangeIter struct {
	Map  *MapObj
	Keys []int // iteration order (indices)
	Pos  int
	Str  *Str
	BPos int
}

func (v Ptr) String() string {
	if v.Obj == nil {
		return "nil"
	}
	return fmt.Sprintf("&o%d[%d]", v.Obj.Serial, v.Off)
}

// ---------------------------------------------------------------- type helpers

type TypeInfo struct {
	sizes map[types.Type]int
}

func under(t types.Type) types.Type { return t.Underlying() }

func (st *State) sizeOf(t types.Type) int {
	switch u := t.Underlying().(type) {
	case *types.Struct:
		if n, ok := st.sizeMemo[t]; ok {
			return n
		}
		n := 0
		for i := 0; i < u.NumFields(); i++ {
			n += st.sizeOf(u.Field(i).Type())
		}
		st.sizeMemo[t] = n
		return n
	case *types.Array:
		return int(u.Len()) * st.sizeOf(u.Elem())
	}
	return 1
}

func (st *State) fieldOffset(s *types.Struct, idx int) int {
	off := 0
	for i := 0; i < idx; i++ {
		off += st.sizeOf(s.Field(i).Type())
	}
	return off
}

// intType reports width and signedness of integer-like types (bool has width 0).
func intType(t types.Type) (w int, signed bool, ok bool) {
	b, isB := t.Underlying().(*types.Basic)
	if !isB {
		return 0, false, false
	}
	switch b.Kind() {
	case types.Bool, types.UntypedBool:
		return 0, false, true
	case types.Int, types.Int64, types.UntypedInt:
		return 64, true, true
	case types.Int32, types.UntypedRune:
		return 32, true, true
	case types.Int16:
		return 16, true, true
	case types.Int8:
		return 8, true, true
	case types.Uint, types.Uint64, types.Uintptr:
		return 64, false, true
	case types.Uint32:
		return 32, false, true
	case types.Uint16:
		return 16, false, true
	case types.Uint8:
		return 8, false, true
	}
	return 0, false, false
}

func isFloat(t types.Type) bool {
	b, ok := t.Underlying().(*types.Basic)
	return ok && (b.Info()&types.IsFloat != 0)
}

func isString(t types.Type) bool {
	b, ok := t.Underlying().(*types.Basic)
	return ok && (b.Info()&types.IsString != 0)
}

func (st *State) zero(t types.Type) Value {
	switch u := t.Underlying().(type) {
	case *types.Basic:
		if w, _, ok := intType(t); ok {
			return st.b.Const(w, 0)
		}
		if isFloat(t) {
			return Float{0}
		}
		if isString(t) {
			return Str{}
		}
		if u.Kind() == types.UnsafePointer || u.Kind() == types.UntypedNil {
			return Ptr{}
		}
		panic(st.unsupported("zero value of basic type " + t.String()))
	case *types.Pointer:
		return Ptr{}
	case *types.Slice:
		return Slice{ES: st.sizeOf(u.Elem())}
	case *types.Interface:
		return Iface{}
	case *types.Map:
		return (*MapObj)(nil)
	case *types.Chan:
		return (*ChanObj)(nil)
	case *types.Signature:
		return (*Closure)(nil)
	case *types.Struct:
		a := make(Agg, u.NumFields())
		for i := range a {
			a[i] = st.zero(u.Field(i).Type())
		}
		return a
	case *types.Array:
		a := make(Agg, u.Len())
		z := st.zero(u.Elem())
		for i := range a {
			a[i] = z
		}
		return a
	case *types.Tuple:
		a := make(Agg, u.Len())
		for i := range a {
			a[i] = st.zero(u.At(i).Type())
		}
		return a
	}
	panic(st.unsupported("zero value of type " + t.String()))
}

// flatten writes v (of type t) into cells.
func (st *State) flatten(t types.Type, v Value, out []Value) []Value {
	switch u := t.Underlying().(type) {
	case *types.Struct:
		a, ok := v.(Agg)
		if !ok {
			panic(st.unsupported(fmt.Sprintf("flatten: struct value is %T", v)))
		}
		for i := 0; i < u.NumFields(); i++ {
			out = st.flatten(u.Field(i).Type(), a[i], out)
		}
		return out
	case *types.Array:
		a, ok := v.(Agg)
		if !ok {
			panic(st.unsupported(fmt.Sprintf("flatten: array value is %T", v)))
		}
		for i := 0; i < int(u.Len()); i++ {
			out = st.flatten(u.Elem(), a[i], out)
		}
		return out
	}
	return append(out, v)
}

// unflatten rebuilds a value of type t from cells; returns the value and cells consumed.
func (st *State) unflatten(t types.Type, cells []Value) (Value, int) {
	switch u := t.Underlying().(type) {
	case *types.Struct:
		a := make(Agg, u.NumFields())
		n := 0
		for i := range a {
			v, k := st.unflatten(u.Field(i).Type(), cells[n:])
			a[i] = v
			n += k
		}
		return a, n
	case *types.Array:
		a := make(Agg, u.Len())
		n := 0
		for i := range a {
			v, k := st.unflatten(u.Elem(), cells[n:])
			a[i] = v
			n += k
		}
		return a, n
	}
	return cells[0], 1
}
