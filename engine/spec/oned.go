package spec

import "vpengine/exec"

func init() {
	reg(&Oblig{ID: "EAN", Pkg: "ean", Func: "VP_EAN", Props: []string{"C06", "C14", "C10", "C11"},
		Desc:  "EAN-8/13: acceptance exactly for 7/8/12/13 digits with a right check digit; Content = full number; CheckSum = GS1 check digit; kind; 67/95 modules; every module equals the L/G/R + parity + guard-bar spec encoder; colours, bounds, ColorModel/ColorScheme",
		Real:  []string{"ean.Encode", "ean.EncodeWithColor", "ean.calcCheckNum", "ean.encodeEAN8", "ean.encodeEAN13", "utils.RuneToInt", "utils.IntToRune", "utils.New1DCodeIntCheckSumWithColor", "(*utils.base1DCode).At/Bounds/Content/Metadata/ColorModel/ColorScheme", "(*utils.base1DCodeIntCS).CheckSum", "(*utils.BitList).AddBit/GetBit"},
		Stubs: []string{"errors.New / fmt opaque", "oracle tables: GS1 set A patterns; B, C derived by complement/mirror; parity table by first digit"},
		Bound: "content = n fully symbolic bytes for every n in 0..15 (all 256 values per byte, so invalid UTF-8 and non-digits included), split into two complementary instances by assumption (all bytes digits / some byte not a digit); plain Encode and EncodeWithColor with an opaque scheme",
		Configs: func(tier string, seed int64) []map[string]int {
			var out []map[string]int
			for n := 0; n <= 15; n++ {
				for c := 0; c <= 1; c++ {
					if c == 1 && !(n == 7 || n == 8 || n == 12 || n == 13 || n == 3) {
						continue
					}
					for d := 0; d <= 1; d++ {
						if n == 0 && d == 0 {
							continue
						}
						out = append(out, map[string]int{"n": n, "color": c, "digits": d})
					}
				}
			}
			return out
		},
		Tune: func(in *exec.Instance, tier string) { in.VCBatch = 16 }})

	colReal := []string{"utils.New1DCodeWithColor", "(*utils.base1DCode).At/Bounds/Content/Metadata/ColorModel/ColorScheme", "(*utils.BitList).AddBit/GetBit"}
	reg(&Oblig{ID: "CODABAR", Pkg: "codabar", Func: "VP_CODABAR", Props: []string{"C08", "C10", "C11"},
		Desc:  "Codabar: accepted exactly for <A-D><0-9-$:/.+>*<A-D>; every module equals the spec encoder (7 elements per character, wide = 2 modules, 1-module gaps); content, metadata, colours",
		Real:  append([]string{"codabar.Encode", "codabar.EncodeWithColor"}, colReal...),
		Stubs: []string{"regexp.Compile + ReplaceAllString modelled: the pattern constant found in the SSA is parsed with regexp/syntax and turned into a Boolean match term over the symbolic bytes (subset: literals, ASCII classes, * + ?, concatenation, alternation, trailing $); leftmost match start forked", "oracle: 20-character element-width table (transcription of the symbology table)"},
		Bound: "content = n fully symbolic bytes, n in 0..5 (quick) / 0..7 (thorough)",
		Configs: func(tier string, seed int64) []map[string]int {
			var out []map[string]int
			top := 5
			if tier == "thorough" {
				top = 7
			}
			for n := 0; n <= top; n++ {
				out = append(out, map[string]int{"n": n, "color": n % 2})
			}
			out = append(out, map[string]int{"n": 3, "color": 0}, map[string]int{"n": 2, "color": 1})
			return out
		}})
	tofCfg := func(tier string, seed int64) []map[string]int {
		var out []map[string]int
		top := 3
		if tier == "thorough" {
			top = 4
		}
		for il := 0; il <= 1; il++ {
			for n := 0; n <= top+il; n++ {
				for d := 0; d <= 1; d++ {
					if n == 0 && d == 0 {
						continue
					}
					if d == 1 && il == 1 && n%2 == 0 && n > top {
						continue
					}
					out = append(out, map[string]int{"n": n, "il": il, "digits": d, "color": (n + il) % 2})
				}
			}
		}
		return out
	}
	reg(&Oblig{ID: "TOF", Pkg: "twooffive", Func: "VP_TOF", Props: []string{"C08", "C10", "C11"},
		Desc:    "2 of 5 standard and interleaved: accepted exactly for non-empty digit strings (even length when interleaved); every module equals the spec encoder (2-of-5 code, wide = 3, start/stop patterns, interleaved pairing); content, metadata, colours",
		Real:    append([]string{"twooffive.Encode", "twooffive.EncodeWithColor"}, colReal...),
		Stubs:   []string{"input space split by assumption into all-digits / some-non-digit instances", "oracle: 2-of-5 code from the weights 1-2-4-7-parity construction"},
		Bound:   "content = n fully symbolic bytes; n in 0..3 standard, 0..4 interleaved (quick; the implementation forks into every digit value, 10^n paths), one more in thorough",
		Configs: tofCfg})
	reg(&Oblig{ID: "TOF-cs", Pkg: "twooffive", Func: "VP_TOF_checksum", Props: []string{"C08", "C10"},
		Desc:  "AddCheckSum: input kept, one digit appended that makes the 3-1 weighted sum a multiple of ten; empty / non-digit input rejected",
		Real:  []string{"twooffive.AddCheckSum", "utils.RuneToInt", "utils.IntToRune"},
		Bound: "n fully symbolic bytes, n in 0..8 (quick) / 0..14 (thorough)",
		Configs: func(tier string, seed int64) []map[string]int {
			var out []map[string]int
			top := 8
			if tier == "thorough" {
				top = 14
			}
			for n := 0; n <= top; n++ {
				out = append(out, map[string]int{"n": n, "digits": 1})
				if n > 0 && n <= 5 {
					out = append(out, map[string]int{"n": n, "digits": 0})
				}
			}
			return out
		}})

	c3993 := func(tier string, seed int64) []map[string]int {
		var out []map[string]int
		nb, nf := 3, 1
		if tier == "thorough" {
			nb, nf = 4, 2
		}
		for full := 0; full <= 1; full++ {
			top := nb
			if full == 1 {
				top = nf
			}
			for n := 0; n <= top; n++ {
				for cs := 0; cs <= 1; cs++ {
					out = append(out, map[string]int{"n": n, "cs": cs, "full": full, "color": (n + cs) % 2})
				}
			}
		}
		return out
	}
	reg(&Oblig{ID: "C39", Pkg: "code39", Func: "VP_C39", Props: []string{"C07", "C10", "C11", "C14"},
		Desc:    "Code 39: accepted exactly for text over the mode's alphabet; * data [mod-43 check] * with 3-of-9 patterns and narrow gaps, every module compared with the construction-derived patterns; Content = basic spelling; CheckSum() = mod-43 value; colours",
		Real:    append([]string{"code39.Encode", "code39.EncodeWithColor", "code39.prepare", "code39.getChecksum", "utils.New1DCodeIntCheckSumWithColor"}, colReal...),
		Stubs:   []string{"oracle: patterns generated from the 3-of-9 construction (2-of-5 bar code per column, wide-space position per decade, $/+% special), full-ASCII table written from the symbology specification", "strings.ContainsRune modelled on the symbolic haystack (constant ASCII needle)"},
		Bound:   "content = n fully symbolic bytes: basic mode n<=3 (4 thorough), full-ASCII n<=1 (2 thorough; the 128-entry expansion forks per character) x checksum flag",
		Configs: c3993})
	reg(&Oblig{ID: "C93", Pkg: "code93", Func: "VP_C93", Props: []string{"C07", "C10", "C11"},
		Desc:    "Code 93: accepted exactly for text over the mode's alphabet; * data [C K] * + termination bar, 9-module patterns, check characters mod 47 with weights 1..20 / 1..15; colours",
		Real:    append([]string{"code93.Encode", "code93.EncodeWithColor", "code93.prepare", "code93.getChecksum"}, colReal...),
		Stubs:   []string{"content bytes assumed < 128 (the four FNC placeholders U+00F1..U+00F4 are outside this obligation)", "oracle: 48 nine-module patterns and the full-ASCII table transcribed from the symbology specification"},
		Bound:   "content = n symbolic ASCII bytes: basic mode n<=3 (4 thorough), full-ASCII n<=1 (2 thorough) x checksum flag",
		Configs: c3993})

	reg(&Oblig{ID: "C128-idx", Pkg: "code128", Func: "VP_C128_idx", Props: []string{"C05", "C10"},
		Desc:  "Code 128 code-set chooser: for k symbolic runes after a prefix establishing code set none/B/A/C, the symbol values decode (reference A/B/C decoder incl. switches and FNC) to exactly the text; nil exactly when a rune is outside ASCII + FNC1..4; input slice untouched",
		Real:  []string{"code128.getCodeIndexList", "code128.shouldUseCTable", "code128.shouldUseATable", "code128.tableContainsRune", "(*utils.BitList).AddByte/GetBytes"},
		Stubs: []string{"strings.IndexRune / ContainsRune on the constant code-set tables modelled exactly (first offset whose rune equals the symbolic needle)"},
		Bound: "k <= 3 fully symbolic runes (any int32) x 5 start states (quick); k <= 4 (thorough)",
		Configs: func(tier string, seed int64) []map[string]int {
			var out []map[string]int
			top := 3
			if tier == "thorough" {
				top = 4
			}
			for p := 0; p <= 4; p++ {
				for k := 0; k <= top; k++ {
					if p == 0 && k == 0 {
						continue
					}
					if tier != "thorough" && k == 3 && p > 1 {
						continue
					}
					out = append(out, map[string]int{"k": k, "prefix": p})
				}
			}
			return out
		}})
	reg(&Oblig{ID: "C128-sym", Pkg: "code128", Func: "VP_C128_sym", Props: []string{"C05", "C10", "C11", "C14"},
		Desc:  "Code 128 symbol for n symbolic ASCII bytes (optionally one FNC placeholder): every 11-module group is a pattern of the standard table, check character = weighted sum mod 103 (absent in the no-checksum variant), 13-module stop, bars decode to the text, Content, CheckSum(), metadata, colours",
		Real:  append([]string{"code128.Encode", "code128.EncodeWithColor", "code128.EncodeWithoutChecksum", "code128.EncodeWithoutChecksumWithColor", "code128.strToRunes", "code128.getCodeIndexList", "utils.New1DCodeIntCheckSumWithColor"}, colReal...),
		Stubs: []string{"content bytes assumed ASCII, FNC placeholders inserted as concrete 2-byte runes", "oracle: 107 element-width patterns transcribed from the symbology specification (11 modules, 3 bars + 3 spaces each; checked in the harness)"},
		Bound: "n <= 2 symbolic bytes x checksum variant x FNC1..4 at each position (quick); n <= 3 (thorough)",
		Configs: func(tier string, seed int64) []map[string]int {
			var out []map[string]int
			top := 2
			if tier == "thorough" {
				top = 3
			}
			q := 0
			for n := 0; n <= top; n++ {
				for cs := 0; cs <= 1; cs++ {
					out = append(out, map[string]int{"n": n, "fpos": -1, "fnc": 1, "cs": cs, "color": (n + cs) % 2})
					for fpos := 0; fpos <= n; fpos++ {
						q++
						if tier != "thorough" && (q%2 == 1 || n == 2 && fpos != 1) {
							continue
						}
						out = append(out, map[string]int{"n": n, "fpos": fpos, "fnc": 1 + q%4, "cs": cs, "color": q % 2})
					}
				}
			}
			return out
		}})
	reg(&Oblig{ID: "C128-len", Pkg: "code128", Func: "VP_C128_len", Props: []string{"C05", "C10"},
		Desc: "length limits: 80 characters accepted, 81 rejected (lower-case letters, symbolic)", Real: []string{"code128.Encode"},
		Bound: "n in {1, 79, 80, 81, 100} characters: symbolic lower-case letters, of which 0, 1 or 40 are FNC1 (two bytes each in the string)",
		Configs: func(tier string, seed int64) []map[string]int {
			ns, fs := []int{1, 80, 81}, []int{0, 1, 40}
			if tier == "thorough" {
				ns, fs = []int{1, 79, 80, 81, 100}, []int{0, 1, 40, 79}
			}
			var out []map[string]int
			for _, n := range ns {
				for _, f := range fs {
					if f <= n {
						out = append(out, map[string]int{"n": n, "fnc": f})
					}
				}
			}
			return out
		}})
}
