package qr

// Independent reference model of ISO/IEC 18004 (QR Code model 2).
//
// Everything here is written from the standard, not from the package under
// test. Structure (sizes, positions, loop counts) depends only on concrete
// parameters (version, level, mask, lengths); codeword and payload bits may be
// symbolic and are only combined with shifts, xors and table-free arithmetic.

// ---------------------------------------------------------------------------
// Symbol geometry

func vpQRDim(version int) int { return 17 + 4*version }

// ISO/IEC 18004 Annex E: row/column coordinates of alignment pattern centres.
var vpQRAlignTable = [41][]int{
	{},
	{},
	{6, 18},
	{6, 22},
	{6, 26},
	{6, 30},
	{6, 34},
	{6, 22, 38},
	{6, 24, 42},
	{6, 26, 46},
	{6, 28, 50},
	{6, 30, 54},
	{6, 32, 58},
	{6, 34, 62},
	{6, 26, 46, 66},
	{6, 26, 48, 70},
	{6, 26, 50, 74},
	{6, 30, 54, 78},
	{6, 30, 56, 82},
	{6, 30, 58, 86},
	{6, 34, 62, 90},
	{6, 28, 50, 72, 94},
	{6, 26, 50, 74, 98},
	{6, 30, 54, 78, 102},
	{6, 28, 54, 80, 106},
	{6, 32, 58, 84, 110},
	{6, 30, 58, 86, 114},
	{6, 34, 62, 90, 118},
	{6, 26, 50, 74, 98, 122},
	{6, 30, 54, 78, 102, 126},
	{6, 26, 52, 78, 104, 130},
	{6, 30, 56, 82, 108, 134},
	{6, 34, 60, 86, 112, 138},
	{6, 30, 58, 86, 114, 142},
	{6, 34, 62, 90, 118, 146},
	{6, 30, 54, 78, 102, 126, 150},
	{6, 24, 50, 76, 102, 128, 154},
	{6, 28, 54, 80, 106, 132, 158},
	{6, 32, 58, 84, 110, 136, 162},
	{6, 26, 54, 82, 110, 138, 166},
	{6, 30, 58, 86, 114, 142, 170},
}

func vpQRAlignmentCentres(version int) []int {
	src := vpQRAlignTable[version]
	out := make([]int, len(src))
	for i := 0; i < len(src); i++ {
		out[i] = src[i]
	}
	return out
}

// vpQRRawModules is the number of modules available for data, error
// correction and remainder bits: all modules minus function patterns, format
// and version information.
func vpQRRawModules(version int) int {
	dim := vpQRDim(version)
	n := dim * dim
	n -= 3 * 64         // finder patterns with separators
	n -= 2 * (dim - 16) // timing patterns between the separators
	k := len(vpQRAlignTable[version])
	if k > 0 {
		// k*k grid positions minus the three that coincide with finders
		n -= (k*k - 3) * 25
		// patterns centred on row 6 / column 6 cover 5 timing modules each
		n += 2 * (k - 2) * 5
	}
	n -= 2*15 + 1 // two copies of format information, dark module
	if version >= 7 {
		n -= 2 * 18 // two copies of version information
	}
	return n
}

func vpQRTotalCodewords(version int) int { return vpQRRawModules(version) / 8 }

func vpQRRemainderBits(version int) int { return vpQRRawModules(version) % 8 }

// ---------------------------------------------------------------------------
// Error correction characteristics (ISO/IEC 18004:2006 Table 9)

// EC codewords per block, index [version][level] with level 0=L 1=M 2=Q 3=H.
var vpQRECPerBlock = [41][4]int{
	{0, 0, 0, 0},
	{7, 10, 13, 17},
	{10, 16, 22, 28},
	{15, 26, 18, 22},
	{20, 18, 26, 16},
	{26, 24, 18, 22},
	{18, 16, 24, 28},
	{20, 18, 18, 26},
	{24, 22, 22, 26},
	{30, 22, 20, 24},
	{18, 26, 24, 28},
	{20, 30, 28, 24},
	{24, 22, 26, 28},
	{26, 22, 24, 22},
	{30, 24, 20, 24},
	{22, 24, 30, 24},
	{24, 28, 24, 30},
	{28, 28, 28, 28},
	{30, 26, 28, 28},
	{28, 26, 26, 26},
	{28, 26, 30, 28},
	{28, 26, 28, 30},
	{28, 28, 30, 24},
	{30, 28, 30, 30},
	{30, 28, 30, 30},
	{26, 28, 30, 30},
	{28, 28, 28, 30},
	{30, 28, 30, 30},
	{30, 28, 30, 30},
	{30, 28, 30, 30},
	{30, 28, 30, 30},
	{30, 28, 30, 30},
	{30, 28, 30, 30},
	{30, 28, 30, 30},
	{30, 28, 30, 30},
	{30, 28, 30, 30},
	{30, 28, 30, 30},
	{30, 28, 30, 30},
	{30, 28, 30, 30},
	{30, 28, 30, 30},
	{30, 28, 30, 30},
}

// Number of error correction blocks, index [version][level].
var vpQRNumBlocks = [41][4]int{
	{0, 0, 0, 0},
	{1, 1, 1, 1},
	{1, 1, 1, 1},
	{1, 1, 2, 2},
	{1, 2, 2, 4},
	{1, 2, 4, 4},
	{2, 4, 4, 4},
	{2, 4, 6, 5},
	{2, 4, 6, 6},
	{2, 5, 8, 8},
	{4, 5, 8, 8},
	{4, 5, 8, 11},
	{4, 8, 10, 11},
	{4, 9, 12, 16},
	{4, 9, 16, 16},
	{6, 10, 12, 18},
	{6, 10, 17, 16},
	{6, 11, 16, 19},
	{6, 13, 18, 21},
	{7, 14, 21, 25},
	{8, 16, 20, 25},
	{8, 17, 23, 25},
	{9, 17, 23, 34},
	{9, 18, 25, 30},
	{10, 20, 27, 32},
	{12, 21, 29, 35},
	{12, 23, 34, 37},
	{12, 25, 34, 40},
	{13, 26, 35, 42},
	{14, 28, 38, 45},
	{15, 29, 40, 48},
	{16, 31, 43, 51},
	{17, 33, 45, 54},
	{18, 35, 48, 57},
	{19, 37, 51, 60},
	{19, 38, 53, 63},
	{20, 40, 56, 66},
	{21, 43, 59, 70},
	{22, 45, 62, 74},
	{24, 47, 65, 77},
	{25, 49, 68, 81},
}

// vpQRBlockSpec returns the block structure for a version and level
// (0=L, 1=M, 2=Q, 3=H): group 1 holds the short blocks, group 2 the blocks
// with one more data codeword.
func vpQRBlockSpec(version int, level int) (ecPerBlock, g1Blocks, g1Data, g2Blocks, g2Data int) {
	total := vpQRTotalCodewords(version)
	ecPerBlock = vpQRECPerBlock[version][level]
	blocks := vpQRNumBlocks[version][level]
	g2Blocks = total % blocks
	g1Blocks = blocks - g2Blocks
	g1Data = total/blocks - ecPerBlock
	g2Data = 0
	if g2Blocks > 0 {
		g2Data = g1Data + 1
	}
	return
}

func vpQRDataCodewords(version int, level int) int {
	_, b1, d1, b2, d2 := vpQRBlockSpec(version, level)
	return b1*d1 + b2*d2
}

// ---------------------------------------------------------------------------
// Character count indicator (ISO/IEC 18004:2006 Table 3)

// mode: 1 numeric, 2 alphanumeric, 4 byte. Returns 0 for other modes.
func vpQRCharCountBits(version int, mode int) int {
	class := 0
	if version >= 10 {
		class = 1
	}
	if version >= 27 {
		class = 2
	}
	if mode == 1 {
		return 10 + 2*class
	}
	if mode == 2 {
		return 9 + 2*class
	}
	if mode == 4 {
		if class == 0 {
			return 8
		}
		return 16
	}
	return 0
}

// ---------------------------------------------------------------------------
// Format and version information (BCH codes, Annex C and D)

// vpBCHRemainder divides value (already shifted left by the degree of gen) by
// gen over GF(2) and returns the remainder; bits is the width of value.
func vpBCHRemainder(value int, bits int, gen int, genBits int) int {
	r := value
	for i := bits - 1; i >= genBits-1; i-- {
		r ^= (gen << uint(i-(genBits-1))) * ((r >> uint(i)) & 1)
	}
	return r
}

// vpQRFormatBits returns the masked 15-bit format information word.
func vpQRFormatBits(level int, mask int) int {
	// level indicators: L=01 M=00 Q=11 H=10
	ind := [4]int{1, 0, 3, 2}
	data := ind[level]<<3 | mask
	word := data<<10 | vpBCHRemainder(data<<10, 15, 0x537, 11)
	return word ^ 0x5412
}

// vpQRVersionBits returns the 18-bit version information word.
func vpQRVersionBits(version int) int {
	return version<<12 | vpBCHRemainder(version<<12, 18, 0x1F25, 13)
}

// ---------------------------------------------------------------------------
// Data mask patterns (ISO/IEC 18004:2006 Table 10), i = row, j = column.

func vpQRMaskBit(mask, row, col int) bool {
	i, j := row, col
	if mask == 0 {
		return (i+j)%2 == 0
	}
	if mask == 1 {
		return i%2 == 0
	}
	if mask == 2 {
		return j%3 == 0
	}
	if mask == 3 {
		return (i+j)%3 == 0
	}
	if mask == 4 {
		return (i/2+j/3)%2 == 0
	}
	if mask == 5 {
		return (i*j)%2+(i*j)%3 == 0
	}
	if mask == 6 {
		return ((i*j)%2+(i*j)%3)%2 == 0
	}
	return ((i+j)%2+(i*j)%3)%2 == 0
}

// ---------------------------------------------------------------------------
// Symbol construction

func vpQRNewGrid(dim int) [][]bool {
	g := make([][]bool, dim)
	for x := 0; x < dim; x++ {
		g[x] = make([]bool, dim)
	}
	return g
}

// vpQRFunctionPatterns returns, indexed [x][y], which modules are function
// modules (including format/version information areas) and the value of the
// fixed ones. Format and version information modules are marked as function
// modules but left light; vpQRMatrix fills them in.
func vpQRFunctionPatterns(version int) (isFunc [][]bool, dark [][]bool) {
	dim := vpQRDim(version)
	isFunc = vpQRNewGrid(dim)
	dark = vpQRNewGrid(dim)

	// Finder patterns (7x7: dark ring, light ring, 3x3 dark core) with the
	// one-module light separator; drawn as 9x9 clipped to the symbol.
	fx := [3]int{3, dim - 4, 3}
	fy := [3]int{3, 3, dim - 4}
	for k := 0; k < 3; k++ {
		for dx := -4; dx <= 4; dx++ {
			for dy := -4; dy <= 4; dy++ {
				x, y := fx[k]+dx, fy[k]+dy
				if x < 0 || y < 0 || x >= dim || y >= dim {
					continue
				}
				ax, ay := dx, dy
				if ax < 0 {
					ax = -ax
				}
				if ay < 0 {
					ay = -ay
				}
				ring := ax
				if ay > ring {
					ring = ay
				}
				isFunc[x][y] = true
				dark[x][y] = ring <= 1 || ring == 3
			}
		}
	}

	// Timing patterns: row 6 and column 6 between the separators, dark on
	// even coordinates.
	for k := 8; k <= dim-9; k++ {
		isFunc[k][6] = true
		dark[k][6] = k%2 == 0
		isFunc[6][k] = true
		dark[6][k] = k%2 == 0
	}

	// Alignment patterns: 5x5 (dark ring, light ring, dark centre) at every
	// pair of centre coordinates except those overlapping a finder pattern.
	c := vpQRAlignTable[version]
	n := len(c)
	for a := 0; a < n; a++ {
		for b := 0; b < n; b++ {
			if (a == 0 && b == 0) || (a == 0 && b == n-1) || (a == n-1 && b == 0) {
				continue
			}
			cx, cy := c[a], c[b]
			for dx := -2; dx <= 2; dx++ {
				for dy := -2; dy <= 2; dy++ {
					edge := dx == -2 || dx == 2 || dy == -2 || dy == 2
					isFunc[cx+dx][cy+dy] = true
					dark[cx+dx][cy+dy] = edge || (dx == 0 && dy == 0)
				}
			}
		}
	}

	// Format information areas and the dark module.
	for k := 0; k <= 8; k++ {
		isFunc[8][k] = true
		isFunc[k][8] = true
	}
	for k := 0; k < 8; k++ {
		isFunc[dim-1-k][8] = true
	}
	for k := 0; k < 7; k++ {
		isFunc[8][dim-1-k] = true
	}
	isFunc[8][dim-8] = true
	dark[8][dim-8] = true

	// Version information areas (6x3 blocks next to the upper right and lower
	// left finder patterns).
	if version >= 7 {
		for a := 0; a < 6; a++ {
			for b := 0; b < 3; b++ {
				isFunc[a][dim-11+b] = true
				isFunc[dim-11+b][a] = true
			}
		}
	}
	return isFunc, dark
}

// vpQRMatrix builds the complete symbol, indexed [x][y] (x column, y row),
// dark = true, from the final interleaved codeword sequence.
func vpQRMatrix(version int, level int, mask int, codewords []byte) [][]bool {
	dim := vpQRDim(version)
	isFunc, m := vpQRFunctionPatterns(version)

	// Format information, bit 14 is the most significant bit.
	f := vpQRFormatBits(level, mask)
	// first copy, around the upper left finder pattern
	for k := 0; k <= 5; k++ {
		m[8][k] = (f>>uint(k))&1 == 1
	}
	m[8][7] = (f>>6)&1 == 1
	m[8][8] = (f>>7)&1 == 1
	m[7][8] = (f>>8)&1 == 1
	for k := 9; k <= 14; k++ {
		m[14-k][8] = (f>>uint(k))&1 == 1
	}
	// second copy: bits 0..7 right to left under the upper right finder,
	// bits 8..14 top to bottom right of the lower left finder
	for k := 0; k <= 7; k++ {
		m[dim-1-k][8] = (f>>uint(k))&1 == 1
	}
	for k := 8; k <= 14; k++ {
		m[8][dim-15+k] = (f>>uint(k))&1 == 1
	}

	// Version information, bit 0 in the corner nearest to the symbol's
	// upper left, three modules per line across the short side.
	if version >= 7 {
		v := vpQRVersionBits(version)
		for k := 0; k < 18; k++ {
			bit := (v>>uint(k))&1 == 1
			long, short := k/3, dim-11+k%3
			m[long][short] = bit // lower left block
			m[short][long] = bit // upper right block
		}
	}

	// Codeword placement: two-module wide columns from the right edge,
	// alternately upward and downward, right module before left module,
	// skipping the vertical timing pattern column.
	nbits := len(codewords) * 8
	pos := 0
	upward := true
	for right := dim - 1; right >= 1; right -= 2 {
		if right == 6 {
			right = 5
		}
		for step := 0; step < dim; step++ {
			y := step
			if upward {
				y = dim - 1 - step
			}
			for k := 0; k < 2; k++ {
				x := right - k
				if isFunc[x][y] {
					continue
				}
				bit := false // remainder bits are zero
				if pos < nbits {
					bit = (codewords[pos/8]>>uint(7-pos%8))&1 == 1
				}
				pos++
				m[x][y] = bit != vpQRMaskBit(mask, y, x)
			}
		}
		upward = !upward
	}
	return m
}

// ---------------------------------------------------------------------------
// Block structure and interleaving

// vpQRSplit cuts the data codeword sequence into the per-block sequences.
func vpQRSplit(version, level int, data []byte) [][]byte {
	_, b1, d1, b2, d2 := vpQRBlockSpec(version, level)
	out := make([][]byte, b1+b2)
	off := 0
	for b := 0; b < b1+b2; b++ {
		n := d1
		if b >= b1 {
			n = d2
		}
		blk := make([]byte, n)
		for i := 0; i < n; i++ {
			blk[i] = data[off+i]
		}
		out[b] = blk
		off += n
	}
	return out
}

// vpQRInterleave builds the final codeword sequence: data codewords taken
// column-wise across the blocks, then error correction codewords column-wise.
func vpQRInterleave(version, level int, data []byte, ecc [][]byte) []byte {
	ecLen, b1, d1, b2, d2 := vpQRBlockSpec(version, level)
	nb := b1 + b2
	blocks := vpQRSplit(version, level, data)
	out := make([]byte, b1*d1+b2*d2+nb*ecLen)
	maxData := d1
	if b2 > 0 {
		maxData = d2
	}
	pos := 0
	for i := 0; i < maxData; i++ {
		for b := 0; b < nb; b++ {
			if i < len(blocks[b]) {
				out[pos] = blocks[b][i]
				pos++
			}
		}
	}
	for i := 0; i < ecLen; i++ {
		for b := 0; b < nb; b++ {
			out[pos] = ecc[b][i]
			pos++
		}
	}
	return out
}

// ---------------------------------------------------------------------------
// Reed-Solomon over GF(2^8), field polynomial x^8+x^4+x^3+x^2+1

// vpGFMulConst multiplies a (possibly symbolic) by the constant c without
// branching; the result is GF(2)-linear in a.
func vpGFMulConst(a int, c int) int {
	r := 0
	for i := 0; i < 8; i++ {
		r ^= (a << uint(i)) * ((c >> uint(i)) & 1)
	}
	for i := 14; i >= 8; i-- {
		r ^= (0x11D << uint(i-8)) * ((r >> uint(i)) & 1)
	}
	return r
}

// vpQRRSGenerator returns the coefficients of prod_{i=0}^{n-1} (x - alpha^i),
// alpha = 2, highest degree first; g[0] = 1 and len(g) = n+1.
func vpQRRSGenerator(n int) []int {
	g := make([]int, n+1)
	g[0] = 1
	root := 1
	for i := 0; i < n; i++ {
		// multiply the degree-i polynomial g[0..i] by (x + root)
		for k := i + 1; k >= 1; k-- {
			g[k] ^= vpGFMulConst(g[k-1], root)
		}
		root = vpGFMulConst(root, 2)
	}
	return g
}

// vpQRRS returns the ecLen error correction codewords for one block: the
// remainder of data(x)*x^ecLen divided by the generator polynomial.
func vpQRRS(data []byte, ecLen int) []byte {
	g := vpQRRSGenerator(ecLen)
	reg := make([]int, ecLen)
	for i := 0; i < len(data); i++ {
		fb := int(data[i]) ^ reg[0]
		for k := 0; k < ecLen-1; k++ {
			reg[k] = reg[k+1] ^ vpGFMulConst(fb, g[k+1])
		}
		reg[ecLen-1] = vpGFMulConst(fb, g[ecLen])
	}
	out := make([]byte, ecLen)
	for k := 0; k < ecLen; k++ {
		out[k] = byte(reg[k])
	}
	return out
}

// ---------------------------------------------------------------------------
// Bit stream: parsing

func vpB2I(b bool) int {
	if b {
		return 1
	}
	return 0
}

// vpQRBitsValue reads n bits starting at off, most significant first.
func vpQRBitsValue(bits []bool, off int, n int) int {
	v := 0
	for i := 0; i < n; i++ {
		v = v<<1 | vpB2I(bits[off+i])
	}
	return v
}

// vpQRSegmentBits is the length in bits of a segment (mode indicator,
// character count indicator, payload) of the given mode and character count.
func vpQRSegmentBits(version int, mode int, count int) int {
	n := 4 + vpQRCharCountBits(version, mode)
	if mode == 1 {
		n += 10 * (count / 3)
		if count%3 == 2 {
			n += 7
		}
		if count%3 == 1 {
			n += 4
		}
	}
	if mode == 2 {
		n += 11*(count/2) + 6*(count%2)
	}
	if mode == 4 {
		n += 8 * count
	}
	return n
}

// vpQRParse decodes the first segment of a data bit stream.
// payload holds one entry per character: digit values for numeric mode,
// values 0..44 for alphanumeric mode, byte values for byte mode.
// ok is false when the mode is not one of 1, 2, 4, the stream is too short,
// or a group holds a value outside its range.
func vpQRParse(bits []bool, version int) (mode int, count int, payload []int, ok bool) {
	if len(bits) < 4 {
		return 0, 0, nil, false
	}
	mode = vpQRBitsValue(bits, 0, 4)
	if mode != 1 && mode != 2 && mode != 4 {
		return mode, 0, nil, false
	}
	cc := vpQRCharCountBits(version, mode)
	if len(bits) < 4+cc {
		return mode, 0, nil, false
	}
	count = vpQRBitsValue(bits, 4, cc)
	if len(bits) < vpQRSegmentBits(version, mode, count) {
		return mode, count, nil, false
	}
	payload = make([]int, count)
	ok = true
	off := 4 + cc
	if mode == 4 {
		for i := 0; i < count; i++ {
			payload[i] = vpQRBitsValue(bits, off, 8)
			off += 8
		}
	}
	if mode == 1 {
		i := 0
		for ; i+3 <= count; i += 3 {
			v := vpQRBitsValue(bits, off, 10)
			off += 10
			inRange := v < 1000
			ok = ok && inRange
			payload[i] = v / 100
			payload[i+1] = (v / 10) % 10
			payload[i+2] = v % 10
		}
		if count-i == 2 {
			v := vpQRBitsValue(bits, off, 7)
			off += 7
			inRange := v < 100
			ok = ok && inRange
			payload[i] = v / 10
			payload[i+1] = v % 10
		}
		if count-i == 1 {
			v := vpQRBitsValue(bits, off, 4)
			off += 4
			inRange := v < 10
			ok = ok && inRange
			payload[i] = v
		}
	}
	if mode == 2 {
		i := 0
		for ; i+2 <= count; i += 2 {
			v := vpQRBitsValue(bits, off, 11)
			off += 11
			inRange := v < 45*45
			ok = ok && inRange
			payload[i] = v / 45
			payload[i+1] = v % 45
		}
		if count-i == 1 {
			v := vpQRBitsValue(bits, off, 6)
			off += 6
			inRange := v < 45
			ok = ok && inRange
			payload[i] = v
		}
	}
	return mode, count, payload, ok
}

// vpQRPaddingOK checks everything after the last segment: terminator (four
// zero bits, fewer only when the capacity ends first), zero bits up to the
// next codeword boundary, then pad codewords 0xEC, 0x11 alternately until
// the data capacity is filled. bits must hold exactly the data capacity.
func vpQRPaddingOK(bits []bool, usedBits int, totalDataCodewords int) bool {
	total := totalDataCodewords * 8
	if len(bits) != total || usedBits < 0 || usedBits > total {
		return false
	}
	term := total - usedBits
	if term > 4 {
		term = 4
	}
	boundary := (usedBits + term + 7) / 8 * 8
	ok := true
	for p := usedBits; p < boundary; p++ {
		zero := !bits[p]
		ok = ok && zero
	}
	pad := [2]int{0xEC, 0x11}
	for p := boundary; p < total; p++ {
		k := (p - boundary) / 8
		want := (pad[k%2]>>uint(7-(p-boundary)%8))&1 == 1
		same := bits[p] == want
		ok = ok && same
	}
	return ok
}

// ---------------------------------------------------------------------------
// Reference encoder (single segment)

// vpQRAlnumValue returns the alphanumeric mode value of c, or -1.
func vpQRAlnumValue(c byte) int {
	if c >= '0' && c <= '9' {
		return int(c - '0')
	}
	if c >= 'A' && c <= 'Z' {
		return int(c-'A') + 10
	}
	special := [9]byte{' ', '$', '%', '*', '+', '-', '.', '/', ':'}
	for i := 0; i < 9; i++ {
		if c == special[i] {
			return 36 + i
		}
	}
	return -1
}

func vpQRPutBits(bits []bool, off int, value int, n int) int {
	for i := 0; i < n; i++ {
		bits[off+i] = (value>>uint(n-1-i))&1 == 1
	}
	return off + n
}

// vpQRSegment writes mode indicator, character count and payload for content
// into a fresh bit slice; ok is false if content is not encodable in mode or
// the count does not fit the character count indicator.
func vpQRSegment(content []byte, version int, mode int) (bits []bool, ok bool) {
	if mode != 1 && mode != 2 && mode != 4 {
		return nil, false
	}
	n := len(content)
	cc := vpQRCharCountBits(version, mode)
	if n >= 1<<uint(cc) {
		return nil, false
	}
	vals := make([]int, n)
	for i := 0; i < n; i++ {
		v := int(content[i])
		if mode == 1 {
			v = -1
			if content[i] >= '0' && content[i] <= '9' {
				v = int(content[i] - '0')
			}
		}
		if mode == 2 {
			v = vpQRAlnumValue(content[i])
		}
		if v < 0 {
			return nil, false
		}
		vals[i] = v
	}
	bits = make([]bool, vpQRSegmentBits(version, mode, n))
	off := vpQRPutBits(bits, 0, mode, 4)
	off = vpQRPutBits(bits, off, n, cc)
	if mode == 4 {
		for i := 0; i < n; i++ {
			off = vpQRPutBits(bits, off, vals[i], 8)
		}
	}
	if mode == 1 {
		i := 0
		for ; i+3 <= n; i += 3 {
			off = vpQRPutBits(bits, off, vals[i]*100+vals[i+1]*10+vals[i+2], 10)
		}
		if n-i == 2 {
			off = vpQRPutBits(bits, off, vals[i]*10+vals[i+1], 7)
		}
		if n-i == 1 {
			off = vpQRPutBits(bits, off, vals[i], 4)
		}
	}
	if mode == 2 {
		i := 0
		for ; i+2 <= n; i += 2 {
			off = vpQRPutBits(bits, off, vals[i]*45+vals[i+1], 11)
		}
		if n-i == 1 {
			off = vpQRPutBits(bits, off, vals[i], 6)
		}
	}
	return bits, true
}

// vpQRPad extends a segment bit stream to the full data capacity:
// terminator, zero fill, pad codewords.
func vpQRPad(seg []bool, totalDataCodewords int) []bool {
	total := totalDataCodewords * 8
	out := make([]bool, total)
	for i := 0; i < len(seg); i++ {
		out[i] = seg[i]
	}
	term := total - len(seg)
	if term > 4 {
		term = 4
	}
	boundary := (len(seg) + term + 7) / 8 * 8
	pad := [2]int{0xEC, 0x11}
	for p := boundary; p < total; p++ {
		k := (p - boundary) / 8
		out[p] = (pad[k%2]>>uint(7-(p-boundary)%8))&1 == 1
	}
	return out
}

func vpQRBitsToBytes(bits []bool) []byte {
	out := make([]byte, len(bits)/8)
	for i := 0; i < len(out); i++ {
		out[i] = byte(vpQRBitsValue(bits, i*8, 8))
	}
	return out
}

// vpQRFinalCodewords computes the final interleaved codeword sequence from
// the data codewords of a symbol.
func vpQRFinalCodewords(version, level int, data []byte) []byte {
	ecLen, _, _, _, _ := vpQRBlockSpec(version, level)
	blocks := vpQRSplit(version, level, data)
	ecc := make([][]byte, len(blocks))
	for b := 0; b < len(blocks); b++ {
		ecc[b] = vpQRRS(blocks[b], ecLen)
	}
	return vpQRInterleave(version, level, data, ecc)
}

// vpQREncodeRef encodes content as a single segment of the given mode
// (1 numeric, 2 alphanumeric, 4 byte) in the smallest version whose data
// capacity holds the segment, and returns the final codeword sequence.
func vpQREncodeRef(content []byte, level int, mode int) (version int, codewords []byte, ok bool) {
	if level < 0 || level > 3 {
		return 0, nil, false
	}
	for v := 1; v <= 40; v++ {
		seg, segOK := vpQRSegment(content, v, mode)
		if !segOK {
			continue
		}
		capacity := vpQRDataCodewords(v, level)
		if len(seg) > capacity*8 {
			continue
		}
		data := vpQRBitsToBytes(vpQRPad(seg, capacity))
		return v, vpQRFinalCodewords(v, level, data), true
	}
	return 0, nil, false
}
