package qr

import "github.com/boombuler/barcode/utils"

// QR Code: GF(256) with x^8+x^4+x^3+x^2+1 (0x11D), generator base 0.
func vpQRField() (*utils.GaloisField, int) {
	gf := utils.VPGFOf(newErrorCorrection().rs)
	vpAssert(gf.Size == 256, "QR field has 256 elements")
	vpAssert(gf.Base == 0, "QR Reed-Solomon uses generator base 0")
	return gf, 0x11D
}

func VP_GF_tables() { gf, pp := vpQRField(); utils.VPCheckTables(gf, pp) }
func VP_GF_mul()    { gf, pp := vpQRField(); utils.VPCheckMul(gf, pp) }
func VP_GF_inv()    { gf, pp := vpQRField(); utils.VPCheckInv(gf, pp) }
func VP_GF_div()    { gf, pp := vpQRField(); utils.VPCheckDiv(gf, pp) }

func VP_RS_encode() { _, pp := vpQRField(); utils.VPCheckEncode(newErrorCorrection().rs, pp) }
func VP_RS_cache() {
	utils.VPCheckCache(func() *utils.ReedSolomonEncoder { return newErrorCorrection().rs }, 0x11D)
}

// the package-level encoder shared by all callers is the one newErrorCorrection builds
func VP_RS_shared() {
	gf := utils.VPGFOf(ec.rs)
	vpAssert(gf.Size == 256 && gf.Base == 0 && gf.ALogTbl[8] == 0x1D, "package-level QR encoder uses GF(256)/0x11D base 0")
	utils.VPCheckEncode(ec.rs, 0x11D)
}
