package datamatrix

// Native validation of oracle_dm.go against the real library (run in a scratch copy of the
// repository with oracle_dm.go copied next to the package, see ORACLE-GUIDE.md).

import (
	"image"
	"image/color"
	"testing"
)

// vpTestRand is a tiny deterministic generator (no math/rand needed).
type vpTestRand struct{ s uint32 }

func (r *vpTestRand) next() int {
	r.s = r.s*1664525 + 1013904223
	return int(r.s >> 8)
}

func vpTestLetters(n int, seed uint32) []byte {
	r := &vpTestRand{seed}
	out := make([]byte, n)
	for i := range out {
		out[i] = byte('A' + r.next()%26)
		if r.next()%3 == 0 {
			out[i] = byte('a' + r.next()%26)
		}
	}
	return out
}

func vpTestDigits(n int, seed uint32) []byte {
	r := &vpTestRand{seed}
	out := make([]byte, n)
	for i := range out {
		out[i] = byte('0' + r.next()%10)
	}
	return out
}

func vpTestHigh(n int, seed uint32) []byte {
	r := &vpTestRand{seed}
	out := make([]byte, n)
	for i := range out {
		out[i] = byte(128 + r.next()%128)
	}
	return out
}

// vpTestMixed: runs of letters, digits, high bytes, control characters, arbitrary bytes.
func vpTestMixed(n int, seed uint32) []byte {
	r := &vpTestRand{seed}
	out := make([]byte, 0, n)
	for len(out) < n {
		kind := r.next() % 5
		run := 1 + r.next()%7
		for k := 0; k < run && len(out) < n; k++ {
			switch kind {
			case 0:
				out = append(out, byte('A'+r.next()%26))
			case 1:
				out = append(out, byte('0'+r.next()%10))
			case 2:
				out = append(out, byte(128+r.next()%128))
			case 3:
				out = append(out, byte(r.next()%32))
			default:
				out = append(out, byte(r.next()%256))
			}
		}
	}
	return out
}

// vpTestCompare runs content through the library and through the reference model and
// compares bounds and every pixel. It returns the symbol size used (0 if rejected).
func vpTestCompare(t *testing.T, content []byte, what string) int {
	t.Helper()
	size, cws, ok := vpDMEncodeRef(content)
	code, err := Encode(string(content))
	if !ok {
		if err == nil {
			t.Errorf("%s (len %d): reference says too long, library produced a symbol", what, len(content))
		}
		return 0
	}
	if err != nil {
		t.Errorf("%s (len %d): library error %v, reference fits %dx%d", what, len(content), err, size[0], size[0])
		return 0
	}
	if len(cws) != size[2]+size[3] {
		t.Fatalf("%s: reference produced %d codewords for %v", what, len(cws), size)
	}
	want := vpDMMatrix(size, cws)
	if b := code.Bounds(); b != image.Rect(0, 0, size[0], size[0]) {
		t.Errorf("%s (len %d): bounds %v, want %dx%d", what, len(content), b, size[0], size[0])
		return size[0]
	}
	bad := 0
	for x := 0; x < size[0]; x++ {
		for y := 0; y < size[0]; y++ {
			c := code.At(x, y)
			dark := c == color.Black
			if !dark && c != color.White {
				t.Fatalf("%s: pixel (%d,%d) is neither black nor white: %v", what, x, y, c)
			}
			if dark != want[x][y] {
				bad++
				if bad <= 5 {
					t.Errorf("%s (len %d, %dx%d): pixel (%d,%d) library dark=%v reference dark=%v",
						what, len(content), size[0], size[0], x, y, dark, want[x][y])
				}
			}
		}
	}
	if bad > 0 {
		t.Errorf("%s (len %d, %dx%d): %d differing pixels", what, len(content), size[0], size[0], bad)
		// diagnose: does the alternative 144x144 interleave explain it?
		data := cws[:size[2]]
		alt := vpDMMatrix(size, vpDMInterleavedECCAlt(size, data))
		badAlt := 0
		for x := 0; x < size[0]; x++ {
			for y := 0; y < size[0]; y++ {
				if (code.At(x, y) == color.Black) != alt[x][y] {
					badAlt++
				}
			}
		}
		t.Logf("%s: with the alternative interleave convention %d pixels differ", what, badAlt)
	}
	return size[0]
}

func TestVPOracleSizes(t *testing.T) {
	sizes := vpDMSizes()
	if len(sizes) != 24 {
		t.Fatalf("%d sizes", len(sizes))
	}
	for i, s := range sizes {
		if s[0] != s[1]*(s[5]+2) {
			t.Errorf("size %v: symbol size inconsistent with regions", s)
		}
		side := s[1] * s[5]
		if (side*side)/8 != s[2]+s[3] {
			t.Errorf("size %v: mapping matrix holds %d codewords, table says %d", s, side*side/8, s[2]+s[3])
		}
		if s[3]%s[4] != 0 {
			t.Errorf("size %v: ecc not divisible by blocks", s)
		}
		if i > 0 && (sizes[i-1][0] >= s[0] || sizes[i-1][2] >= s[2]) {
			t.Errorf("size %v not increasing", s)
		}
		// placement is a bijection onto codeword bits (+ fixed corner iff side*side%8 == 4)
		pl := vpDMPlacement(side, side)
		seen := make([]int, (s[2]+s[3])*8)
		dark, light := 0, 0
		for _, p := range pl {
			switch {
			case p[0] == -1:
				dark++
			case p[0] == -2:
				light++
			case p[0] < 0 || p[0] >= s[2]+s[3] || p[1] < 0 || p[1] > 7:
				t.Fatalf("size %v: bad placement entry %v", s, p)
			default:
				seen[p[0]*8+p[1]]++
			}
		}
		for k, n := range seen {
			if n != 1 {
				t.Errorf("size %v: codeword %d bit %d placed %d times", s, k/8, k%8, n)
				break
			}
		}
		wantFixed := 0
		if (side*side)%8 != 0 {
			wantFixed = 2
		}
		if dark != wantFixed || light != wantFixed {
			t.Errorf("size %v: %d fixed dark, %d fixed light modules, want %d each", s, dark, light, wantFixed)
		}
	}
}

func TestVPOracleRS(t *testing.T) {
	// the codeword polynomial data(x)*x^n + ecc(x) must vanish at alpha^1..alpha^n
	for _, n := range []int{5, 7, 10, 12, 14, 18, 20, 24, 28, 36, 42, 48, 56, 62, 68} {
		data := make([]int, 40)
		r := &vpTestRand{uint32(n)}
		for i := range data {
			data[i] = r.next() % 256
		}
		ecc := vpDMRS(data, n)
		if len(ecc) != n {
			t.Fatalf("ecc length")
		}
		all := append(append([]int{}, data...), ecc...)
		root := 1
		for i := 1; i <= n; i++ {
			root = vpDMMulConst(root, 2)
			v := 0
			for _, c := range all {
				v = vpDMMulConst(v, root) ^ c
			}
			if v != 0 {
				t.Errorf("n=%d: codeword does not vanish at alpha^%d", n, i)
			}
		}
	}
	// Annex: generator for 5 check characters of ISO/IEC 16022 (x^5 + 62x^4 + 111x^3 + 15x^2 + 48x + 228)
	g := vpDMGenerator(5)
	want := []int{228, 48, 15, 111, 62, 1}
	for i := range want {
		if g[i] != want[i] {
			t.Errorf("generator(5) = %v, want %v", g, want)
			break
		}
	}
}

func TestVPOracleKnownSymbol(t *testing.T) {
	// Worked example of the standard: "123456" -> data 142 164 186, ecc 114 25 5 88 102, 10x10.
	size, cws, ok := vpDMEncodeRef([]byte("123456"))
	want := []int{142, 164, 186, 114, 25, 5, 88, 102}
	if !ok || size[0] != 10 || len(cws) != len(want) {
		t.Fatalf("123456: %v %v %v", size, cws, ok)
	}
	for i := range want {
		if cws[i] != want[i] {
			t.Fatalf("123456: codewords %v, want %v", cws, want)
		}
	}
}

func TestVPOracleASCII(t *testing.T) {
	for seed := uint32(1); seed <= 300; seed++ {
		content := vpTestMixed(int(seed%97), seed)
		enc := vpDMEncodeASCII(content)
		lib := encodeText(string(content))
		if string(enc) != string(lib) {
			t.Errorf("encodeText(%q) = %v, reference %v", content, lib, enc)
		}
		cw := make([]int, len(enc))
		for i := range enc {
			cw[i] = int(enc[i])
		}
		out, n, ok := vpDMDecodeASCII(cw, len(cw))
		if !ok || n != len(content) {
			t.Errorf("decode(encode(%q)) length %d ok %v", content, n, ok)
			continue
		}
		for i := 0; i < n; i++ {
			if out[i] != int(content[i]) {
				t.Errorf("decode(encode(%q)) differs at %d", content, i)
				break
			}
		}
	}
}

func TestVPOraclePadding(t *testing.T) {
	for _, s := range vpDMSizes() {
		for _, l := range []int{0, 1, s[2] / 2, s[2] - 2, s[2] - 1, s[2]} {
			if l < 0 {
				continue
			}
			data := make([]byte, l)
			for i := range data {
				data[i] = byte(i%100 + 1)
			}
			lib := addPadding(data, s[2])
			pad := vpDMPadding(l, s[2])
			if len(lib) != l+len(pad) {
				t.Errorf("padding %d -> %d: lengths %d vs %d", l, s[2], len(lib), l+len(pad))
				continue
			}
			for i := range pad {
				if int(lib[l+i]) != pad[i] {
					t.Errorf("padding %d -> %d: position %d library %d reference %d", l, s[2], l+i+1, lib[l+i], pad[i])
					break
				}
			}
		}
	}
}

// The two 144x144 interleave conventions: identical for all other sizes, different for 144x144;
// reports which one the library's calcECC produces.
func TestVPOracleInterleaveConvention(t *testing.T) {
	for _, s := range vpDMSizes() {
		data := make([]int, s[2])
		raw := make([]byte, s[2])
		r := &vpTestRand{uint32(s[0])}
		for i := range data {
			data[i] = r.next() % 256
			raw[i] = byte(data[i])
		}
		std := vpDMInterleavedECC(s, data)
		alt := vpDMInterleavedECCAlt(s, data)
		same := true
		for i := range std {
			if std[i] != alt[i] {
				same = false
			}
		}
		if same != (s[0] != 144) {
			t.Errorf("size %d: conventions identical = %v", s[0], same)
		}
		var libSize *dmCodeSize
		for _, cs := range codeSizes {
			if cs.Rows == s[0] && cs.Columns == s[0] {
				libSize = cs
			}
		}
		if libSize == nil {
			t.Errorf("size %d: library has no such square symbol", s[0])
			continue
		}
		lib := ec.calcECC(raw, libSize)
		if len(lib) != len(std) {
			t.Errorf("size %d: library produces %d codewords, want %d", s[0], len(lib), len(std))
			continue
		}
		eqStd, eqAlt := true, true
		for i := range lib {
			if int(lib[i]) != std[i] {
				eqStd = false
			}
			if int(lib[i]) != alt[i] {
				eqAlt = false
			}
		}
		if !eqStd {
			t.Errorf("size %d: library codewords differ from standard convention (equal to alternative: %v)", s[0], eqAlt)
		}
		if s[0] == 144 {
			t.Logf("144x144: library == standard convention: %v, == alternative convention: %v", eqStd, eqAlt)
		}
	}
}

func TestVPOracleAgainstEncode(t *testing.T) {
	hit := map[int]int{}
	run := func(content []byte, what string) {
		hit[vpTestCompare(t, content, what)]++
	}
	run(nil, "empty")
	seed := uint32(7)
	for _, s := range vpDMSizes() {
		c := s[2]
		for _, d := range []int{-1, 0, 1} {
			n := c + d
			if n < 0 {
				continue
			}
			seed++
			run(vpTestLetters(n, seed), "letters")
			seed++
			// 2n digits -> n codewords; 2n+1 digits -> n+1 codewords
			run(vpTestDigits(2*n, seed), "digits")
			seed++
			run(vpTestDigits(2*n+1, seed), "digits odd")
		}
		// high bytes: 2 codewords each
		for _, n := range []int{c / 2, c/2 + 1} {
			seed++
			run(vpTestHigh(n, seed), "high")
		}
		// capacity reached by high bytes + one letter when c is odd
		seed++
		run(append(vpTestHigh(c/2, seed), vpTestLetters(c%2, seed)...), "high+letter")
		// random mixtures around this capacity
		for k := 0; k < 6; k++ {
			seed++
			r := &vpTestRand{seed}
			n := c/2 + r.next()%(c/2+2)
			run(vpTestMixed(n, seed), "mixed")
		}
	}
	// far too long
	run(vpTestLetters(1559, 99), "too long")
	run(vpTestLetters(3000, 98), "too long")
	run(vpTestDigits(3117, 97), "too long digits")
	run(vpTestDigits(3116, 96), "max digits")
	// short fixed strings
	for _, s := range []string{"1", "12", "123", "a", "\x00", "\x7f", "\x80", "\xff", "9\xff9", "00", "0a0", "Hello World", "{RSID:1234567890}"} {
		run([]byte(s), "fixed")
	}
	// exhaustive single bytes and all digit pairs
	for b := 0; b < 256; b++ {
		run([]byte{byte(b)}, "single byte")
	}
	for _, s := range vpDMSizes() {
		if hit[s[0]] == 0 {
			t.Errorf("size %d never exercised", s[0])
		}
	}
	t.Logf("symbols compared per size: %v (key 0 = rejected as too long)", hit)
}
