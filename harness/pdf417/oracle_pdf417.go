package pdf417

// Independent ISO/IEC 15438 (PDF417) reference model.
//
// Everything here is derived from the standard, not from the package under
// test. The one thing that cannot be derived from a rule, the 3 x 929
// codeword-to-bar-pattern table, is NOT embedded: functions that need it take
// it as a parameter (table(cluster, value)), and vpPdfPatternOK states the
// structural properties every entry must have.
//
// Sub-mode numbering used by this file: 0 Alpha, 1 Lower, 2 Mixed, 3 Punct.
// (The library's subUpper..subPunct are 3..6 because of where iota stands.)

const (
	vpPdfStartPattern = 0x1FEA8 // 17 modules: 11111111010101000
	vpPdfStopPattern  = 0x3FA29 // 18 modules: 111111101000101001
	vpPdfField        = 929
)

func vpPdfB2I(b bool) int {
	if b {
		return 1
	}
	return 0
}

// ---------------------------------------------------------------------------
// 1. Symbol character structure (ISO/IEC 15438 5.3.1)
// ---------------------------------------------------------------------------

// vpPdfPatternOK reports whether pattern (17 bits, MSB = first module, 1 = bar)
// is a structurally valid symbol character of the given cluster index
// (0, 1, 2 for cluster numbers 0, 3, 6): begins with a bar, ends with a space,
// exactly 4 bars and 4 spaces, every element 1..6 modules wide, and
// (b1 - b2 + b3 - b4 + 9) mod 9 equal to the cluster number.
func vpPdfPatternOK(cluster int, value int, pattern int) bool {
	ok := cluster >= 0 && cluster <= 2 && value >= 0 && value <= 928
	ok = ok && pattern >= 0 && pattern>>17 == 0
	ok = ok && (pattern>>16)&1 == 1 && pattern&1 == 0
	prev := 0 // a virtual space precedes the first module
	run := 0
	bars := 0
	spaces := 0
	sign := -1
	sum := 0
	for i := 0; i < 17; i++ {
		bit := (pattern >> uint(16-i)) & 1
		if bit != prev {
			run = 1
		} else {
			run++
		}
		if bit == 1 && prev == 0 {
			bars++
			sign = -sign
		}
		if bit == 0 && prev == 1 {
			spaces++
		}
		if bit == 1 {
			sum += sign
		}
		ok = ok && run <= 6
		prev = bit
	}
	ok = ok && bars == 4 && spaces == 4
	ok = ok && (sum+18)%9 == 3*cluster
	return ok
}

// ---------------------------------------------------------------------------
// 2. Row indicators (ISO/IEC 15438 5.11.3)
// ---------------------------------------------------------------------------

// vpPdfLeftIndicator is the value of the left row indicator of row `row`
// (0-based) of a symbol with `rows` rows, `cols` data columns and error
// correction level `level`.
func vpPdfLeftIndicator(row, rows, cols, level int) int {
	base := 30 * (row / 3)
	cl := row % 3
	if cl == 0 {
		return base + (rows-1)/3
	}
	if cl == 1 {
		return base + level*3 + (rows-1)%3
	}
	return base + (cols - 1)
}

// vpPdfRightIndicator is the value of the right row indicator.
func vpPdfRightIndicator(row, rows, cols, level int) int {
	base := 30 * (row / 3)
	cl := row % 3
	if cl == 0 {
		return base + (cols - 1)
	}
	if cl == 1 {
		return base + (rows-1)/3
	}
	return base + level*3 + (rows-1)%3
}

// ---------------------------------------------------------------------------
// 3. Symbol matrix
// ---------------------------------------------------------------------------

func vpPdfPut(dst []bool, at int, pattern int, n int) {
	for k := 0; k < n; k++ {
		dst[at+k] = (pattern>>uint(n-1-k))&1 == 1
	}
}

// vpPdfMatrix lays out the complete symbol: one []bool of 17*(cols+4)+1
// modules per symbol row (true = bar). codewords holds rows*cols values, row by
// row (length descriptor, data, pad, error correction). Each row is: start
// pattern, left row indicator, cols codewords, right row indicator, stop
// pattern, all symbol characters taken from cluster (row mod 3).
// Codeword values are only ever passed to table and shifted; never branched on.
func vpPdfMatrix(rows, cols, level int, codewords []int, table func(cluster, value int) int) [][]bool {
	width := 17*(cols+4) + 1
	out := make([][]bool, rows)
	for r := 0; r < rows; r++ {
		line := make([]bool, width)
		cl := r % 3
		vpPdfPut(line, 0, vpPdfStartPattern, 17)
		vpPdfPut(line, 17, table(cl, vpPdfLeftIndicator(r, rows, cols, level)), 17)
		for c := 0; c < cols; c++ {
			vpPdfPut(line, 17*(c+2), table(cl, codewords[r*cols+c]), 17)
		}
		vpPdfPut(line, 17*(cols+2), table(cl, vpPdfRightIndicator(r, rows, cols, level)), 17)
		vpPdfPut(line, 17*(cols+3), vpPdfStopPattern, 18)
		out[r] = line
	}
	return out
}

// ---------------------------------------------------------------------------
// 4. Error correction (ISO/IEC 15438 5.10, Annex K): Reed-Solomon over GF(929)
// ---------------------------------------------------------------------------

// vpPdfRSCount is k = 2^(level+1).
func vpPdfRSCount(level int) int {
	return 2 << uint(level)
}

// vpPdfRSCoeffs returns a_0 .. a_{k-1}, the coefficients (low order first,
// reduced to 0..928, without the leading 1 of x^k) of
// g(x) = (x - 3)(x - 3^2)...(x - 3^k) over GF(929).
func vpPdfRSCoeffs(level int) []int {
	k := vpPdfRSCount(level)
	g := make([]int, k+1)
	g[0] = 1
	root := 1
	for i := 1; i <= k; i++ {
		root = (root * 3) % vpPdfField
		// g(x) *= (x - root); degree before this step is i-1
		for j := i; j >= 1; j-- {
			g[j] = (g[j-1] + (vpPdfField-root)*g[j]) % vpPdfField
		}
		g[0] = ((vpPdfField - root) * g[0]) % vpPdfField
	}
	return g[:k]
}

// vpPdfRS returns the k error correction codewords C_{k-1} .. C_0 (in symbol
// order) for data = d_{n-1} .. d_0 (symbol order, beginning with the symbol
// length descriptor, including pad codewords): the complements of the
// coefficients of the remainder of d(x)*x^k divided by g(x). This is the
// division circuit of the standard; every step is +, *constant, %929.
func vpPdfRS(data []int, level int) []int {
	k := vpPdfRSCount(level)
	a := vpPdfRSCoeffs(level)
	e := make([]int, k)
	for i := 0; i < len(data); i++ {
		t1 := (data[i] + e[k-1]) % vpPdfField
		for j := k - 1; j >= 1; j-- {
			t2 := (t1 * a[j]) % vpPdfField
			e[j] = (e[j-1] + vpPdfField - t2) % vpPdfField
		}
		t2 := (t1 * a[0]) % vpPdfField
		e[0] = (vpPdfField - t2) % vpPdfField
	}
	out := make([]int, k)
	for i := 0; i < k; i++ {
		out[i] = (vpPdfField - e[k-1-i]) % vpPdfField
	}
	return out
}

// vpPdfSyndromesZero evaluates the polynomial whose coefficients are all
// (symbol order = highest power first; data followed by the k error correction
// codewords) at 3^1 .. 3^k and reports whether every value is 0 mod 929.
func vpPdfSyndromesZero(all []int, level int) bool {
	k := vpPdfRSCount(level)
	ok := true
	alpha := 1
	for i := 1; i <= k; i++ {
		alpha = (alpha * 3) % vpPdfField
		s := 0
		for j := 0; j < len(all); j++ {
			s = (s*alpha + all[j]) % vpPdfField
		}
		ok = ok && s == 0
	}
	return ok
}

// ---------------------------------------------------------------------------
// 5. High-level decoding (ISO/IEC 15438 5.4)
// ---------------------------------------------------------------------------

// Text compaction sub-mode tables (Table 5 of the standard), flattened as
// [submode*30 + value]. vpPdfTextChar holds the character (0 = not a
// character), vpPdfTextAct the function: 1..4 latch to Alpha/Lower/Mixed/Punct,
// 5 shift to Alpha (as), 6 shift to Punct (ps).
var vpPdfTextChar = [120]byte{
	// Alpha
	'A', 'B', 'C', 'D', 'E', 'F', 'G', 'H', 'I', 'J', 'K', 'L', 'M', 'N', 'O',
	'P', 'Q', 'R', 'S', 'T', 'U', 'V', 'W', 'X', 'Y', 'Z', ' ', 0, 0, 0,
	// Lower
	'a', 'b', 'c', 'd', 'e', 'f', 'g', 'h', 'i', 'j', 'k', 'l', 'm', 'n', 'o',
	'p', 'q', 'r', 's', 't', 'u', 'v', 'w', 'x', 'y', 'z', ' ', 0, 0, 0,
	// Mixed
	'0', '1', '2', '3', '4', '5', '6', '7', '8', '9', '&', '\r', '\t', ',', ':',
	'#', '-', '.', '$', '/', '+', '%', '*', '=', '^', 0, ' ', 0, 0, 0,
	// Punctuation
	';', '<', '>', '@', '[', '\\', ']', '_', '`', '~', '!', '\r', '\t', ',', ':',
	'\n', '-', '.', '$', '/', '"', '|', '*', '(', ')', '?', '{', '}', '\'', 0,
}

var vpPdfTextAct = [120]int{
	// Alpha: 27 ll, 28 ml, 29 ps
	0, 0, 0, 0, 0, 0, 0, 0, 0, 0, 0, 0, 0, 0, 0, 0, 0, 0, 0, 0, 0, 0, 0, 0, 0, 0, 0, 2, 3, 6,
	// Lower: 27 as, 28 ml, 29 ps
	0, 0, 0, 0, 0, 0, 0, 0, 0, 0, 0, 0, 0, 0, 0, 0, 0, 0, 0, 0, 0, 0, 0, 0, 0, 0, 0, 5, 3, 6,
	// Mixed: 25 pl, 27 ll, 28 al, 29 ps
	0, 0, 0, 0, 0, 0, 0, 0, 0, 0, 0, 0, 0, 0, 0, 0, 0, 0, 0, 0, 0, 0, 0, 0, 0, 4, 0, 2, 1, 6,
	// Punctuation: 29 al
	0, 0, 0, 0, 0, 0, 0, 0, 0, 0, 0, 0, 0, 0, 0, 0, 0, 0, 0, 0, 0, 0, 0, 0, 0, 0, 0, 0, 0, 1,
}

// The text compaction state of a reader is ts = sub + 4*shift with sub the
// latched sub-mode (0 Alpha, 1 Lower, 2 Mixed, 3 Punct) and shift 0 (none),
// 1 (as pending) or 2 (ps pending). vpPdfTextTables expands the two tables
// above into a transition table indexed [ts*32 + v] (v = 0..29; 30 and 31 are
// unused filler so that any v in 0..31 stays in range): the character produced
// (0 = none) and the next state. All of this is concrete computation, done
// once at package initialisation (vpPdfTch, vpPdfTnx).
//
// A shift applies to exactly one value, after which the latched sub-mode is
// back in force. Where the standard is silent, ZXing is followed: a latch or
// shift value met under a shift is ignored, except that ps followed by 29 (al
// in the Punct table) latches to Alpha.
func vpPdfTextTables() (ch []int, next []int) {
	ch = make([]int, 12*32)
	next = make([]int, 12*32)
	for ts := 0; ts < 12; ts++ {
		sub := ts % 4
		shift := ts / 4
		t := sub
		if shift == 1 {
			t = 0
		}
		if shift == 2 {
			t = 3
		}
		for v := 0; v < 32; v++ {
			if v >= 30 {
				next[ts*32+v] = ts
				continue
			}
			act := vpPdfTextAct[t*30+v]
			nsub := sub
			nshift := 0
			if shift != 0 {
				if act == 1 && t == 3 {
					nsub = 0
				}
			} else {
				if act >= 1 && act <= 4 {
					nsub = act - 1
				}
				if act == 5 {
					nshift = 1
				}
				if act == 6 {
					nshift = 2
				}
			}
			ch[ts*32+v] = int(vpPdfTextChar[t*30+v])
			next[ts*32+v] = nsub + 4*nshift
		}
	}
	return ch, next
}

var vpPdfTch, vpPdfTnx = vpPdfTextTables()

const vpPdfLimb = 1000000000000000 // 10^15: numeric groups are kept as 3 limbs (45 digits)

// vpPdfDec is the decoder state. The decoder is a state machine that consumes
// one codeword per step; every helper takes a guard and performs its scalar
// updates under that guard, and all loop trip counts are concrete (constants
// or derived from the number of codewords consumed), so the control structure
// does not depend on the codeword values.
type vpPdfDec struct {
	out []byte // fixed size; n bytes are valid
	n   int
	ok  bool

	mode int  // 0 text, 1 byte (901), 2 byte (924), 3 numeric
	ts   int  // text state, see vpPdfTextTables
	pend bool // 913 seen: the next codeword is one byte

	bbuf [5]int // byte compaction: codewords of the open group
	bcnt int

	num  [3]int // numeric compaction: value of the open group, base 10^15, low limb first
	ncnt int

	steps int // codewords consumed so far (concrete; bounds bcnt and ncnt)
}

func vpPdfNewDec(n int, sub int) *vpPdfDec {
	d := new(vpPdfDec)
	d.out = make([]byte, 3*n+8)
	d.ok = true
	d.ts = sub
	return d
}

func (d *vpPdfDec) emit(g bool, b int) {
	if g {
		d.out[d.n] = byte(b)
		d.n++
	}
}

// textHalf processes one text compaction value v (0..31).
func (d *vpPdfDec) textHalf(g bool, v int) {
	idx := d.ts*32 + v
	ch := vpPdfTch[idx]
	if g {
		d.ts = vpPdfTnx[idx]
	}
	d.emit(g && ch != 0, ch)
}

// byteGroup emits the 6 bytes of a full group of 5 codewords (base 900 -> base 256).
func (d *vpPdfDec) byteGroup(g bool) {
	v := 0
	for j := 0; j < 5; j++ {
		v = v*900 + d.bbuf[j]
	}
	if g {
		if v >= 1<<48 {
			d.ok = false
		}
		d.out[d.n] = byte((v / (1 << 40)) % 256)
		d.out[d.n+1] = byte((v / (1 << 32)) % 256)
		d.out[d.n+2] = byte((v / (1 << 24)) % 256)
		d.out[d.n+3] = byte((v / (1 << 16)) % 256)
		d.out[d.n+4] = byte((v / (1 << 8)) % 256)
		d.out[d.n+5] = byte(v % 256)
		d.n += 6
	}
}

// byteSingles emits the open group as one byte per codeword.
func (d *vpPdfDec) byteSingles(g bool) {
	for j := 0; j < 5 && j < d.steps; j++ {
		gj := g && j < d.bcnt
		if gj && d.bbuf[j] > 255 {
			d.ok = false
		}
		d.emit(gj, d.bbuf[j])
	}
}

// numFlush ends a numeric group: the base 900 value, written in decimal, is
// a '1' followed by the digits. lead is -1 when the guard is off, 0 until the
// first non-zero digit has been seen, then that digit. A group of m codewords
// is below 900^m < 10^(3m) and m <= steps, which gives a concrete bound on the
// digits to look at.
func (d *vpPdfDec) numFlush(g bool) {
	lead := -1
	if g {
		lead = 0
	}
	hi := 3*d.steps - 1
	if hi > 44 {
		hi = 44
	}
	for j := hi; j >= 0; j-- {
		p := 1
		for q := 0; q < j%15; q++ {
			p *= 10
		}
		dj := (d.num[j/15] / p) % 10
		d.emit(lead > 0, '0'+dj)
		if lead == 0 {
			lead = dj
		}
	}
	if g && lead != 1 {
		d.ok = false
	}
}

// step consumes one codeword.
//
// Byte compaction: under 924 every 5 codewords are 6 bytes. Under 901 the byte
// count is not a multiple of 6, so the segment ends with 1..5 single-byte
// codewords: 5 codewords are a group of 6 bytes only if another data codeword
// follows in the segment. In both cases fewer than 5 codewords left at the end
// of the segment are single bytes.
func (d *vpPdfDec) step(c int) {
	d.steps++
	if c < 0 || c > 928 {
		d.ok = false
		c = 0
	}
	isData := c < 900
	pend := d.pend
	fn := !pend && !isData // function codeword
	dt := !pend && isData  // data codeword of the mode in force
	inByte := d.mode == 1 || d.mode == 2
	inNum := d.mode == 3
	full := d.bcnt == 5

	// the codeword after 913 is one byte
	if pend && c > 255 {
		d.ok = false
	}
	d.emit(pend, c)

	// byte compaction: close a full group / the segment, then take the codeword
	endBytes := fn && inByte
	d.byteGroup(full && ((dt && inByte) || (endBytes && d.mode == 2)))
	d.byteSingles(endBytes && !(full && d.mode == 2))
	if (dt && inByte && full) || endBytes {
		d.bcnt = 0
	}
	if dt && inByte {
		d.bbuf[d.bcnt] = c
		d.bcnt++
	}

	// numeric compaction: take the codeword, close the group after 15 codewords
	// or at the end of the segment
	if dt && inNum {
		carry := c
		t := d.num[0]*900 + carry
		n0 := t % vpPdfLimb
		carry = t / vpPdfLimb
		t = d.num[1]*900 + carry
		n1 := t % vpPdfLimb
		carry = t / vpPdfLimb
		t = d.num[2]*900 + carry
		d.num[0], d.num[1], d.num[2] = n0, n1, t
		d.ncnt++
	}
	endNum := inNum && d.ncnt > 0 && (fn || d.ncnt == 15)
	d.numFlush(endNum)
	if endNum {
		d.num[0], d.num[1], d.num[2] = 0, 0, 0
		d.ncnt = 0
	}

	// text compaction
	tx := dt && d.mode == 0
	d.textHalf(tx, c/30)
	d.textHalf(tx, c%30)

	// function codewords
	d.pend = false
	if fn {
		if c == 913 {
			// only defined in text compaction; the sub-mode is kept, a
			// pending ps (used as padding) is dropped.
			if d.mode != 0 {
				d.ok = false
			}
			d.pend = true
			d.ts = d.ts % 4
		} else {
			m := -1
			if c == 900 {
				m = 0
			}
			if c == 901 {
				m = 1
			}
			if c == 924 {
				m = 2
			}
			if c == 902 {
				m = 3
			}
			if m < 0 {
				// Macro PDF417, ECI and reserved codewords are not modelled.
				d.ok = false
				m = d.mode
			}
			d.mode = m
			d.ts = 0
		}
	}
}

func (d *vpPdfDec) finish() {
	inByte := d.mode == 1 || d.mode == 2
	full := d.bcnt == 5 && d.mode == 2
	d.byteGroup(inByte && full)
	d.byteSingles(inByte && !full)
	d.numFlush(d.mode == 3 && d.ncnt > 0)
	if d.pend {
		d.ok = false
	}
}

// vpPdfDecodeN decodes the data codewords of a symbol (those after the symbol
// length descriptor, without error correction; trailing 900 pad codewords may
// be present and produce nothing). Text compaction (Alpha) is in effect at the
// start. The result is a buffer of fixed length 3*len(cw)+8 of which the first
// n bytes are the message (use this form when cw is symbolic: n is then a
// symbolic value and no slice with a symbolic bound is formed).
// ok is false for codewords outside 0..928, Macro/ECI/reserved function
// codewords, 913 outside text compaction or without a following byte value, a
// single-byte codeword above 255, a 5-codeword group above 2^48-1, or a
// numeric group whose decimal value does not begin with 1.
func vpPdfDecodeN(cw []int) (buf []byte, n int, ok bool) {
	d := vpPdfNewDec(len(cw), 0)
	for i := 0; i < len(cw); i++ {
		d.step(cw[i])
	}
	d.finish()
	return d.out, d.n, d.ok
}

// vpPdfDecode is vpPdfDecodeN with the buffer cut to the message.
func vpPdfDecode(cw []int) ([]byte, bool) {
	buf, n, ok := vpPdfDecodeN(cw)
	return buf[:n], ok
}

// vpPdfDecodeTextN decodes a run of text compaction codewords (each 0..899)
// starting in sub-mode sub (0 Alpha, 1 Lower, 2 Mixed, 3 Punct). It returns the
// characters (first n bytes of buf, len(buf) = 3*len(cw)+8) and the latched
// sub-mode a reader is in afterwards (a pending trailing ps/as is padding and
// does not change it).
func vpPdfDecodeTextN(cw []int, sub int) (buf []byte, n int, endSub int, ok bool) {
	d := vpPdfNewDec(len(cw), sub)
	for i := 0; i < len(cw); i++ {
		c := cw[i]
		if c < 0 || c > 899 {
			d.ok = false
			c = 0
		}
		d.textHalf(true, c/30)
		d.textHalf(true, c%30)
	}
	return d.out, d.n, d.ts % 4, d.ok
}

// vpPdfDecodeText is vpPdfDecodeTextN with the buffer cut to the text.
func vpPdfDecodeText(cw []int, sub int) ([]byte, int, bool) {
	buf, n, endSub, ok := vpPdfDecodeTextN(cw, sub)
	return buf[:n], endSub, ok
}

// ---------------------------------------------------------------------------
// 6. Shape
// ---------------------------------------------------------------------------

// vpPdfShapeOK: the library's limits (2..30 rows and columns; the standard
// itself asks for 3..90 rows and 1..30 columns), room for the length
// descriptor, dataWords data codewords and k error correction codewords, and
// less than one full row of padding.
func vpPdfShapeOK(dataWords, level, rows, cols int) bool {
	need := dataWords + 1 + vpPdfRSCount(level)
	ok := rows >= 2 && rows <= 30 && cols >= 2 && cols <= 30
	ok = ok && rows*cols >= need
	ok = ok && (rows-1)*cols < need
	return ok
}

// ---------------------------------------------------------------------------
// 7. Reference reader (native use)
// ---------------------------------------------------------------------------

// vpPdfReadInfo is the detailed outcome of vpPdfReadDetail; each flag is one
// independent check so that a caller can tell which rule a symbol violates.
type vpPdfReadInfo struct {
	payload   []byte
	rows      int
	cols      int
	level     int
	codewords []int // rows*cols values, row by row
	left      []int // left row indicator values as read
	right     []int // right row indicator values as read

	geometryOK   bool // >= 2 rows, equal widths, width = 17*(cols+4)+1, cols >= 1
	startStopOK  bool // every row begins with the start and ends with the stop pattern
	patternsOK   bool // every symbol character is a pattern of cluster (row mod 3)
	levelOK      bool // level read from row 1 is 0..8
	indicatorsOK bool // all indicators equal vpPdfLeftIndicator / vpPdfRightIndicator
	lengthOK     bool // length descriptor = rows*cols - k, >= 1
	syndromesOK  bool
	decodeOK     bool
}

func (r *vpPdfReadInfo) allOK() bool {
	return r.geometryOK && r.startStopOK && r.patternsOK && r.levelOK &&
		r.indicatorsOK && r.lengthOK && r.syndromesOK && r.decodeOK
}

func vpPdfBits(line []bool, at int, n int) int {
	v := 0
	for k := 0; k < n; k++ {
		v = v<<1 | vpPdfB2I(line[at+k])
	}
	return v
}

// vpPdfLookup is the inverse of table within one cluster (-1: no such pattern).
func vpPdfLookup(table func(cluster, value int) int, cluster int, pattern int) int {
	found := -1
	for v := 0; v < 929; v++ {
		if table(cluster, v) == pattern && found < 0 {
			found = v
		}
	}
	return found
}

func vpPdfReadDetail(img [][]bool, table func(cluster, value int) int) *vpPdfReadInfo {
	res := new(vpPdfReadInfo)
	rows := len(img)
	if rows < 2 {
		return res
	}
	width := len(img[0])
	for r := 0; r < rows; r++ {
		if len(img[r]) != width {
			return res
		}
	}
	if width < 17*5+1 || (width-1)%17 != 0 {
		return res
	}
	cols := (width-1)/17 - 4
	res.geometryOK = true
	res.rows = rows
	res.cols = cols

	res.startStopOK = true
	res.patternsOK = true
	res.left = make([]int, rows)
	res.right = make([]int, rows)
	res.codewords = make([]int, rows*cols)
	for r := 0; r < rows; r++ {
		line := img[r]
		cl := r % 3
		if vpPdfBits(line, 0, 17) != vpPdfStartPattern || vpPdfBits(line, 17*(cols+3), 18) != vpPdfStopPattern {
			res.startStopOK = false
		}
		res.left[r] = vpPdfLookup(table, cl, vpPdfBits(line, 17, 17))
		res.right[r] = vpPdfLookup(table, cl, vpPdfBits(line, 17*(cols+2), 17))
		if res.left[r] < 0 || res.right[r] < 0 {
			res.patternsOK = false
		}
		for c := 0; c < cols; c++ {
			v := vpPdfLookup(table, cl, vpPdfBits(line, 17*(c+2), 17))
			if v < 0 {
				res.patternsOK = false
			}
			res.codewords[r*cols+c] = v
		}
	}
	if !res.patternsOK {
		return res
	}

	// The error correction level is carried by the left indicator of row 1
	// (cluster 3): value = 30*(1/3) + 3*level + (rows-1) mod 3.
	level := res.left[1] / 3
	res.level = level
	res.levelOK = level >= 0 && level <= 8
	if !res.levelOK {
		return res
	}
	res.indicatorsOK = true
	for r := 0; r < rows; r++ {
		if res.left[r] != vpPdfLeftIndicator(r, rows, cols, level) ||
			res.right[r] != vpPdfRightIndicator(r, rows, cols, level) {
			res.indicatorsOK = false
		}
	}

	k := vpPdfRSCount(level)
	n := res.codewords[0]
	res.lengthOK = n >= 1 && n == rows*cols-k
	res.syndromesOK = vpPdfSyndromesZero(res.codewords, level)
	if res.lengthOK {
		res.payload, res.decodeOK = vpPdfDecode(res.codewords[1:n])
	}
	return res
}

// vpPdfRead reads a symbol given as one []bool per symbol row.
func vpPdfRead(img [][]bool, table func(cluster, value int) int) (payload []byte, rows, cols, level int, ok bool) {
	res := vpPdfReadDetail(img, table)
	return res.payload, res.rows, res.cols, res.level, res.allOK()
}
