package twooffive

import (
	"image"
	"image/color"

	"github.com/boombuler/barcode"
)

// C08 (2 of 5, standard and interleaved, and the check-digit helper) with C10 / C11 side conditions.

// 2-of-5 code of the digits (weights 1,2,4,7,parity; 1 = wide), digit 0 coded as 4+7.
var vpTofCode = [10]int{0x06, 0x11, 0x09, 0x18, 0x05, 0x14, 0x0C, 0x03, 0x12, 0x0A}

type vpCol struct{ id int }

func (c vpCol) RGBA() (r, g, b, a uint32) { return uint32(c.id), 0, 0, 0xffff }

const vpWide = 3

// vpExpand appends to (m, l) an element of the given colour and width.
func vpExpand(m, l int, bar bool, wide bool) (int, int) {
	n := 1
	if wide {
		n = vpWide
	}
	for k := 0; k < n; k++ {
		m <<= 1
		if bar {
			m |= 1
		}
		l++
	}
	return m, l
}

func VP_TOF() {
	n := vpConfig("n")
	il := vpConfig("il") == 1
	content := vpString("c", n)
	if vpConfig("digits") == 1 {
		for i := 0; i < n; i++ {
			vpAssume(content[i] >= '0' && content[i] <= '9')
		}
	} else {
		some := false
		for i := 0; i < n; i++ {
			some = some || content[i] < '0' || content[i] > '9'
		}
		vpAssume(some)
	}
	scheme := barcode.ColorScheme16
	var bc barcode.Barcode
	var err error
	if vpConfig("color") == 1 {
		scheme = barcode.ColorScheme{Model: color.CMYKModel, Foreground: vpCol{1}, Background: vpCol{2}}
		bc, err = EncodeWithColor(content, il, scheme)
	} else {
		bc, err = Encode(content, il)
	}
	vpAssert((bc == nil) != (err == nil), "exactly one of barcode and error is nil")
	valid := n >= 1 && vpConfig("digits") == 1 && (!il || n%2 == 0)
	if !valid {
		vpAssert(err != nil, "empty text, non-digits and (interleaved) odd lengths are rejected")
		vpCover("rejected", true)
		return
	}
	vpAssert(err == nil && bc != nil, "digit strings are accepted")
	if bc == nil {
		return
	}
	vpCover("accepted", true)
	vpAssert(bc.Content() == content, "Content is the text")
	md := bc.Metadata()
	if il {
		vpAssert(md.CodeKind == "2 of 5 (interleaved)" && md.Dimensions == 1, "metadata says interleaved 2 of 5, 1D")
	} else {
		vpAssert(md.CodeKind == "2 of 5" && md.Dimensions == 1, "metadata says 2 of 5, 1D")
	}
	vpAssert(bc.ColorModel() == scheme.Model, "ColorModel is the scheme's model")
	if cs, ok := bc.(barcode.BarcodeColor); ok {
		got := cs.ColorScheme()
		vpAssert(got.Model == scheme.Model && got.Foreground == scheme.Foreground && got.Background == scheme.Background, "ColorScheme() reports the scheme in force")
	} else {
		vpAssert(false, "2 of 5 barcodes expose their colour scheme")
	}
	// module tables built concretely from the 2-of-5 code
	var single [10]int // 14 modules: bar (wide/narrow) + narrow space, five times
	for d := 0; d < 10; d++ {
		m, l := 0, 0
		for e := 0; e < 5; e++ {
			m, l = vpExpand(m, l, true, (vpTofCode[d]>>uint(4-e))&1 == 1)
			m, l = vpExpand(m, l, false, false)
		}
		single[d] = m
	}
	var pair [100]int // 18 modules: bars from the first digit, spaces from the second
	for d := 0; d < 100; d++ {
		m, l := 0, 0
		for e := 0; e < 5; e++ {
			m, l = vpExpand(m, l, true, (vpTofCode[d/10]>>uint(4-e))&1 == 1)
			m, l = vpExpand(m, l, false, (vpTofCode[d%10]>>uint(4-e))&1 == 1)
		}
		pair[d] = m
	}
	start, startLen, stop, stopLen := 0xDA, 8, 0x6B, 7 // 11011010 ... 1101011
	symLen, symbols := 14, n
	if il {
		start, startLen, stop, stopLen = 0xA, 4, 0x1D, 5 // 1010 ... 11101
		symLen, symbols = 18, n/2
	}
	width := startLen + symbols*symLen + stopLen
	vpAssert(bc.Bounds() == image.Rect(0, 0, width, 1), "bounds are (0,0)-(modules,1)")
	if bc.Bounds().Dx() != width {
		return
	}
	check := func(x int, bar bool) {
		px := bc.At(x, 0)
		vpAssert((px == scheme.Foreground) == bar, "module is a bar exactly where the pattern has one")
		vpAssert((px == scheme.Background) == !bar, "pixels are exactly foreground or background")
	}
	for k := 0; k < startLen; k++ {
		check(k, (start>>uint(startLen-1-k))&1 == 1)
	}
	for s := 0; s < symbols; s++ {
		var m int
		if il {
			m = pair[int(content[2*s]-'0')*10+int(content[2*s+1]-'0')]
		} else {
			m = single[int(content[s]-'0')]
		}
		for k := 0; k < symLen; k++ {
			check(startLen+s*symLen+k, (m>>uint(symLen-1-k))&1 == 1)
		}
	}
	for k := 0; k < stopLen; k++ {
		check(startLen+symbols*symLen+k, (stop>>uint(stopLen-1-k))&1 == 1)
	}
}

// AddCheckSum appends the digit that makes the 3-1 weighted sum (check digit weight 1,
// its left neighbour weight 3, alternating) a multiple of ten.
func VP_TOF_checksum() {
	n := vpConfig("n")
	content := vpString("c", n)
	if vpConfig("digits") == 1 {
		for i := 0; i < n; i++ {
			vpAssume(content[i] >= '0' && content[i] <= '9')
		}
	} else {
		some := false
		for i := 0; i < n; i++ {
			some = some || content[i] < '0' || content[i] > '9'
		}
		vpAssume(some)
	}
	res, err := AddCheckSum(content)
	if n == 0 || vpConfig("digits") != 1 {
		vpAssert(err != nil, "empty or non-digit input is rejected")
		vpCover("rejected", true)
		return
	}
	vpAssert(err == nil, "digit strings are accepted")
	vpAssert(len(res) == n+1, "exactly one digit is appended")
	if err != nil || len(res) != n+1 {
		return
	}
	sum := 0
	for i := 0; i < n; i++ {
		vpAssert(res[i] == content[i], "the input digits are kept")
		d := int(res[i] - '0')
		if (n-i)%2 == 1 { // left neighbour of the check digit and every second digit leftwards
			sum += 3 * d
		} else {
			sum += d
		}
	}
	last := res[n]
	vpAssert(last >= '0' && last <= '9', "the appended character is a digit")
	vpAssert((sum+int(last-'0'))%10 == 0, "the appended digit makes the 3-1 weighted sum a multiple of ten")
	vpCover("accepted", true)
}


// C15 / C16: purity (deterministic, history-free, no package-level writes)
func VP_PURE() {
	n := vpConfig("n")
	content := vpString("c", n)
	for i := 0; i < n; i++ {
		vpAssume(content[i] >= '0' && content[i] <= '9')
	}
	vpTrackGlobals()
	a, errA := Encode(content, false)
	_, _ = Encode("123456", true)
	b, errB := Encode(content, false)
	vpAssert((errA == nil) == (errB == nil), "the same call succeeds or fails the same way every time ")
	if errA == nil && errB == nil {
		vpAssert(a.Bounds() == b.Bounds() && a.Content() == b.Content(), "the same call returns the same barcode whatever was encoded before")
		if a.Bounds() == b.Bounds() {
			for x := 0; x < a.Bounds().Dx(); x++ {
				vpAssert(a.At(x, 0) == b.At(x, 0), "the same call returns the same pixels whatever was encoded before")
			}
		}
	}
	vpAssert(vpGlobalWrites() == 0, "no package-level state is written")
	vpCover("reached", true)
}
