package exec

import (
	"fmt"
	"go/constant"
	"go/token"
	"go/types"
	"math"
	"os"
	"strings"
	"time"

	"golang.org/x/tools/go/ssa"

	"vpengine/term"
)

func (st *State) top() *Frame { return st.cur.frames[len(st.cur.frames)-1] }

// get returns the value of an SSA operand in frame fr.
func (st *State) get(fr *Frame, v ssa.Value) Value {
	switch v := v.(type) {
	case *ssa.Const:
		return st.constVal(v)
	case *ssa.Global:
		return Ptr{Obj: st.globalObject(v)}
	case *ssa.Function:
		return &Closure{Fn: v}
	case *ssa.Builtin:
		return &Closure{Builtin: v}
	}
	idx, ok := fr.info.Reg[v]
	if !ok {
		panic(st.unsupported(fmt.Sprintf("operand %T %s has no register", v, v.Name())))
	}
	r := fr.regs[idx]
	if r == nil {
		panic(st.unsupported(fmt.Sprintf("read of undefined register %s", v.Name())))
	}
	if n, ok := r.(*term.Node); ok && n.Op == term.OpVar && len(st.subst) > 0 {
		if c, bound := st.subst[n]; bound {
			return c
		}
	}
	return r
}

func (st *State) set(fr *Frame, v ssa.Value, val Value) {
	fr.regs[fr.info.Reg[v]] = val
}

func (st *State) globalObject(g *ssa.Global) *Object {
	if o, ok := st.globals[g]; ok {
		return o
	}
	t := g.Type().(*types.Pointer).Elem()
	o := st.allocZero(t)
	o.Global = g
	o.Label = g.Pkg.Pkg.Name() + "." + g.Name()
	st.globals[g] = o
	return o
}

func (st *State) constVal(c *ssa.Const) Value {
	t := c.Type()
	if c.Value == nil {
		return st.zero(t)
	}
	if w, _, ok := intType(t); ok {
		if w == 0 {
			return st.b.Bool(constant.BoolVal(c.Value))
		}
		if c.Value.Kind() == constant.Float {
			f, _ := constant.Float64Val(c.Value)
			return st.b.Const(w, uint64(int64(f)))
		}
		if i, exact := constant.Int64Val(constant.ToInt(c.Value)); exact {
			return st.b.Const(w, uint64(i))
		}
		u, _ := constant.Uint64Val(constant.ToInt(c.Value))
		return st.b.Const(w, u)
	}
	if isFloat(t) {
		f, _ := constant.Float64Val(c.Value)
		return Float{f}
	}
	if isString(t) {
		return st.strConst(constant.StringVal(c.Value))
	}
	panic(st.unsupported("constant of type " + t.String()))
}

func (st *State) strConst(s string) Str {
	b := make([]*term.Node, len(s))
	for i := 0; i < len(s); i++ {
		b[i] = st.b.Const(8, uint64(s[i]))
	}
	return Str{B: b}
}

func (st *State) strConcrete(s Str) (string, bool) {
	out := make([]byte, len(s.B))
	for i, n := range s.B {
		v, ok := n.ConstVal()
		if !ok {
			return "", false
		}
		out[i] = byte(v)
	}
	return string(out), true
}

// ---------------------------------------------------------------- calls

func (st *State) pushFrame(fn *ssa.Function, args []Value, bindings []Value, retReg int) {
	if fn.Blocks == nil {
		panic(st.unsupported("call of function without body: " + fn.String()))
	}
	if len(st.cur.frames) > 400 {
		panic(st.unsupported("call depth exceeds 400 at " + fn.String()))
	}
	info := st.prog.info(fn)
	fr := &Frame{fn: fn, info: info, regs: make([]Value, info.NumRegs), block: fn.Blocks[0], retReg: retReg}
	if len(args) != len(fn.Params) {
		panic(st.unsupported(fmt.Sprintf("call of %s with %d args, want %d", fn, len(args), len(fn.Params))))
	}
	for i, p := range fn.Params {
		fr.regs[info.Reg[p]] = args[i]
	}
	for i, fv := range fn.FreeVars {
		fr.regs[info.Reg[fv]] = bindings[i]
	}
	st.cur.frames = append(st.cur.frames, fr)
	if st.res.Funcs != nil {
		st.res.Funcs[fn.String()]++
	}
}

// callValue performs a call of fnv with args; result goes to register retReg of the calling frame.
// Returns true if the call completed immediately (intrinsic), in which case res holds the result.
func (st *State) callValue(fr *Frame, fnv Value, args []Value, retReg int, site ssa.Instruction) (done bool, res Value) {
	switch f := fnv.(type) {
	case *Closure:
		if f == nil {
			st.certainPanic("call of nil function")
		}
		if f.Builtin != nil {
			return true, st.callBuiltin(fr, f.Builtin, args, site)
		}
		fn := f.Fn
		if len(st.redirect) > 0 {
			// stubs may be keyed by call site: "callee|callerName" takes precedence over "callee"
			if r, ok := st.redirect[fn.String()+"|"+fr.fn.Name()]; ok {
				fn = r
			} else if r, ok := st.redirect[fn.String()]; ok {
				fn = r
			}
		}
		if h, ok := st.intrinsic(fn); ok {
			return true, h(st, fr, fn, args)
		}
		st.pushFrame(fn, args, f.Bindings, retReg)
		return false, nil
	case Mux:
		k := st.choose(f.G)
		return st.callValue(fr, f.V[k], args, retReg, site)
	}
	panic(st.unsupported(fmt.Sprintf("call of %T", fnv)))
}

func (st *State) execCall(fr *Frame, call *ssa.CallCommon, retReg int, site ssa.Instruction) (done bool, res Value) {
	var args []Value
	var fnv Value
	if call.IsInvoke() {
		recv := st.get(fr, call.Value)
		if mx, ok := recv.(Mux); ok {
			k := st.choose(mx.G)
			recv = mx.V[k]
		}
		ifc, ok := recv.(Iface)
		if !ok {
			panic(st.unsupported(fmt.Sprintf("invoke on %T", recv)))
		}
		if ifc.T == nil {
			st.certainPanic("method call on nil interface")
		}
		fn := st.prog.Prog.LookupMethod(ifc.T, call.Method.Pkg(), call.Method.Name())
		if fn == nil {
			panic(st.unsupported("method " + call.Method.Name() + " not found on " + ifc.T.String()))
		}
		args = append(args, ifc.V)
		fnv = &Closure{Fn: fn}
	} else {
		fnv = st.get(fr, call.Value)
	}
	for _, a := range call.Args {
		args = append(args, st.get(fr, a))
	}
	return st.callValue(fr, fnv, args, retReg, site)
}

// ---------------------------------------------------------------- main loop

// run executes until the current path ends (pathEnd panic) or, while speculating,
// until the join block is reached.
func (st *State) run() {
	for {
		g := st.cur
		if len(g.frames) == 0 {
			// goroutine finished
			if st.spec != nil {
				panic(specAbort{"goroutine end"})
			}
			g.status = gDone
			st.schedule()
			continue
		}
		fr := g.frames[len(g.frames)-1]
		if st.spec != nil {
			sp := st.spec
			if sp.join == nil {
				if g == sp.g && len(g.frames) < sp.depth {
					return // the branching frame has returned (return-merge mode)
				}
			} else {
				if g == sp.g && fr == sp.frame && fr.block == sp.join && fr.ip == 0 {
					return
				}
				if g == sp.g && len(g.frames) < sp.depth {
					panic(specAbort{"return from branching frame"})
				}
			}
			sp.steps++
			if sp.steps > st.inst.MergeStepLimit || (sp.lazy > 0 && sp.steps > sp.lazy) {
				panic(specAbort{"arm too long"})
			}
		} else {
			st.instrMark = len(st.trail)
			st.decisions = st.decisions[:0]
		}
		st.steps++
		st.pathSteps++
		if st.steps&1023 == 0 && !st.deadline.IsZero() && time.Now().After(st.deadline) {
			panic(Unsupported{fmt.Sprintf("time limit of %s exceeded at %s (paths so far %d, forks %d, merges %d, aborts %d, feasibility queries %d)", st.inst.TimeLimit, st.where(), st.res.Paths, st.res.Forks, st.res.Merges, st.res.MergeAborts, st.solver.Queries)})
		}
		if st.pathSteps > st.stepLimit {
			panic(Unsupported{fmt.Sprintf("unwinding assertion: path exceeds %d interpreted instructions at %s", st.stepLimit, st.where())})
		}
		if fr.ip >= len(fr.block.Instrs) {
			panic(Unsupported{fmt.Sprintf("internal: ip %d beyond block %d of %s (prev %v) forced=%v pos=%d", fr.ip, fr.block.Index, fr.fn, fr.prev, st.forced, st.forcedPos)})
		}
		instr := fr.block.Instrs[fr.ip]
		if traceFilter != "" && strings.Contains(fr.fn.String(), traceFilter) {
			st.traceInstr(fr, instr)
		} else {
			st.step(fr, instr)
		}
	}
}

var traceFilter = os.Getenv("VP_TRACE")

func (st *State) traceInstr(fr *Frame, instr ssa.Instruction) {
	spec := ""
	if st.spec != nil {
		spec = "[spec] "
	}
	st.step(fr, instr)
	if v, ok := instr.(ssa.Value); ok {
		if idx, ok := fr.info.Reg[v]; ok && fr.regs[idx] != nil {
			fmt.Fprintf(os.Stderr, "%s%s b%d: %s = %s  => %s\n", spec, fr.fn.Name(), instr.Block().Index, v.Name(), instr, fmtVal(fr.regs[idx]))
			return
		}
	}
	fmt.Fprintf(os.Stderr, "%s%s b%d: %s\n", spec, fr.fn.Name(), instr.Block().Index, instr)
}

func fmtVal(v Value) string {
	switch x := v.(type) {
	case *term.Node:
		if x.IsConst() {
			return x.String()
		}
		return fmt.Sprintf("sym(n%d op%d w%d)", x.ID, x.Op, x.W)
	case Ptr:
		return x.String()
	case Slice:
		if x.Obj == nil {
			return "slice(nil)"
		}
		return fmt.Sprintf("slice(o%d+%d len %d cap %d)", x.Obj.Serial, x.Off, x.Len, x.Cap)
	case Mux:
		s := "mux{"
		for i := range x.V {
			s += fmtVal(x.V[i]) + " | "
		}
		return s + "}"
	case Agg:
		s := "("
		for _, e := range x {
			s += fmtVal(e) + ", "
		}
		return s + ")"
	}
	return fmt.Sprintf("%T", v)
}

func (st *State) jump(fr *Frame, to *ssa.BasicBlock) {
	fr.prev = fr.block
	fr.block = to
	fr.ip = 0
}

func (st *State) step(fr *Frame, instr ssa.Instruction) {
	switch in := instr.(type) {
	case *ssa.DebugRef:
		fr.ip++
	case *ssa.Phi:
		// evaluate all phis of the block simultaneously
		blk := fr.block
		predIdx := -1
		for i, p := range blk.Preds {
			if p == fr.prev {
				predIdx = i
				break
			}
		}
		if predIdx < 0 {
			panic(st.unsupported("phi without matching predecessor"))
		}
		var vals []Value
		n := 0
		for _, i2 := range blk.Instrs {
			ph, ok := i2.(*ssa.Phi)
			if !ok {
				break
			}
			vals = append(vals, st.get(fr, ph.Edges[predIdx]))
			n++
		}
		for i := 0; i < n; i++ {
			st.set(fr, blk.Instrs[i].(*ssa.Phi), vals[i])
		}
		fr.ip = n
	case *ssa.Jump:
		st.jump(fr, fr.block.Succs[0])
	case *ssa.If:
		st.execIf(fr, in)
	case *ssa.Return:
		var res Value
		switch len(in.Results) {
		case 0:
		case 1:
			res = st.get(fr, in.Results[0])
		default:
			a := make(Agg, len(in.Results))
			for i, r := range in.Results {
				a[i] = st.get(fr, r)
			}
			res = a
		}
		st.doReturn(fr, res)
	case *ssa.RunDefers:
		if len(fr.defers) > 0 {
			d := fr.defers[len(fr.defers)-1]
			fr.defers = fr.defers[:len(fr.defers)-1]
			// re-execute RunDefers after the deferred call returns
			done, _ := st.callValue(fr, d.fn, d.args, -1, in)
			_ = done
			return
		}
		fr.ip++
	case *ssa.Defer:
		var args []Value
		var fnv Value
		if in.Call.IsInvoke() {
			panic(st.unsupported("defer of interface method"))
		}
		fnv = st.get(fr, in.Call.Value)
		for _, a := range in.Call.Args {
			args = append(args, st.get(fr, a))
		}
		cl, ok := fnv.(*Closure)
		if !ok {
			panic(st.unsupported("defer of non-closure"))
		}
		fr.defers = append(fr.defers, deferred{cl, args})
		fr.ip++
	case *ssa.Panic:
		v := st.get(fr, in.X)
		msg := "panic"
		if ifc, ok := v.(Iface); ok {
			if s, ok := ifc.V.(Str); ok {
				if cs, ok := st.strConcrete(s); ok {
					msg = "panic: " + cs
				} else {
					msg = "panic: <symbolic string>"
				}
			}
		}
		st.certainPanic(msg)
	case *ssa.Go:
		st.execGo(fr, in)
	case *ssa.Send:
		st.execSend(fr, in)
	case *ssa.Store:
		addr := st.get(fr, in.Addr)
		val := st.get(fr, in.Val)
		st.store(addr, in.Val.Type(), val)
		fr.ip++
	case *ssa.MapUpdate:
		m := st.get(fr, in.Map)
		mo, ok := m.(*MapObj)
		if !ok {
			panic(st.unsupported(fmt.Sprintf("map update on %T", m)))
		}
		if mo == nil {
			st.certainPanic("assignment to entry in nil map")
		}
		key := st.get(fr, in.Key)
		if !st.isConcrete(key) {
			panic(st.unsupported("map update with symbolic key"))
		}
		st.mapSet(mo, key, st.get(fr, in.Value))
		fr.ip++
	case *ssa.Call:
		retReg := fr.info.Reg[in]
		done, res := st.execCall(fr, &in.Call, retReg, in)
		if done {
			if res == nil {
				res = Agg{}
			}
			fr.regs[retReg] = res
			fr.ip++
		}
	case ssa.Value:
		v := st.evalValue(fr, in)
		if v != nil {
			st.set(fr, in, v)
			fr.ip++
		}
	default:
		panic(st.unsupported(fmt.Sprintf("instruction %T", instr)))
	}
}

func (st *State) doReturn(fr *Frame, res Value) {
	g := st.cur
	g.frames = g.frames[:len(g.frames)-1]
	if len(g.frames) == 0 {
		return
	}
	caller := g.frames[len(g.frames)-1]
	instr := caller.block.Instrs[caller.ip]
	if _, isRD := instr.(*ssa.RunDefers); isRD {
		return // deferred call finished; RunDefers re-executes
	}
	if fr.retReg >= 0 {
		if res == nil {
			res = Agg{}
		}
		caller.regs[fr.retReg] = res
	}
	caller.ip++
}

// certainPanic records a failure that happens on every input following this path.
func (st *State) certainPanic(msg string) {
	if st.guard != nil && st.guard != st.b.True {
		// inside one alternative of a guarded value: the panic happens exactly when the guard holds
		g := st.guard
		st.guard = nil
		st.panicIf(g, msg)
		st.guard = g
		panic(altDropped{})
	}
	if st.spec != nil {
		panic(specAbort{"panic inside speculation"})
	}
	if st.inst.ExpectPanic != "" && strings.Contains(msg, st.inst.ExpectPanic) {
		st.res.CoverHit["expected-panic"] = true
		st.flushObligs()
		panic(pathEnd{"expected panic"})
	}
	st.addOblig("panic", msg, st.b.False)
	st.flushObligs()
	panic(pathEnd{"panic"})
}

// panicIf adds the obligation that cond never holds here and continues on the other side.
func (st *State) panicIf(cond *term.Node, msg string) {
	if st.guard != nil {
		cond = st.b.BAnd(st.guard, cond)
	}
	if cond == st.b.False {
		return
	}
	if cond == st.b.True {
		g := st.guard
		st.guard = nil
		defer func() { st.guard = g }()
		st.certainPanic(msg)
	}
	// Is the non-panicking side feasible at all?
	// The obligation pc => !cond is recorded; when it holds, !cond is implied by the path condition,
	// so it is not added to it (that would only fragment VC batches). When the current model happens
	// to sit on the panicking side we move to a model of the other side.
	okSide := st.b.BNot(cond)
	g0 := st.guard
	st.guard = nil
	defer func() { st.guard = g0 }()
	if v, ok := st.evalBool(okSide); ok && v {
		st.addOblig("panic", msg, okSide)
		return
	}
	feas, m := st.feasible(okSide)
	if !feas {
		st.certainPanic(msg)
	}
	st.addOblig("panic", msg, okSide)
	st.pushPC(okSide)
	st.setModel(m)
}

// ---------------------------------------------------------------- branching and merging

func (st *State) execIf(fr *Frame, in *ssa.If) {
	c := st.get(fr, in.Cond).(*term.Node)
	if v, ok := c.ConstVal(); ok {
		if v != 0 {
			st.jump(fr, fr.block.Succs[0])
		} else {
			st.jump(fr, fr.block.Succs[1])
		}
		return
	}
	notc := st.b.BNot(c)
	if st.forcedPos < len(st.forced) {
		// re-execution after backtracking: the decision was taken before (and merging was ruled out then)
		k := st.chooseWithModels([]*term.Node{c, notc}, nil)
		st.jump(fr, fr.block.Succs[k])
		return
	}
	// Lazy merging: the side the current model takes is feasible for free; try to merge the
	// diamond without asking the solver about the other side (an infeasible arm only adds an
	// unreachable ite alternative and vacuous obligations). Only if that fails is the other side
	// checked, and then forked or followed alone.
	if v, ok := st.evalBool(c); ok && !st.inst.NoMerge && !st.inst.NoLazyMerge {
		var mT, mF *term.Model
		if v {
			mT = st.model
		} else {
			mF = st.model
		}
		st.lazyLimit = st.inst.LazyArmLimit
		merged := st.tryMerge(fr, c, mT, mF)
		st.lazyLimit = 0
		if merged {
			st.res.LazyMerges++
			return
		}
		// merging was ruled out: decide feasibility of the other side and fork (no second, longer attempt)
		other := notc
		if !v {
			other = c
		}
		okO, mO := st.feasible(other)
		if !okO {
			if v {
				st.noteImplied(c)
				st.jump(fr, fr.block.Succs[0])
			} else {
				st.noteImplied(notc)
				st.jump(fr, fr.block.Succs[1])
			}
			return
		}
		// the order of the alternatives must be the one the forced re-execution above uses
		var k int
		if v {
			k = st.chooseWithModels([]*term.Node{c, notc}, []*term.Model{st.model, mO})
		} else {
			k = st.chooseWithModels([]*term.Node{c, notc}, []*term.Model{mO, st.model})
		}
		st.jump(fr, fr.block.Succs[k])
		return
	}
	// feasibility of both sides
	okT, mT := st.feasible(c)
	okF, mF := st.feasible(notc)
	switch {
	case !okT && !okF:
		panic(pathEnd{"infeasible"})
	case okT && !okF:
		st.noteImplied(c)
		st.jump(fr, fr.block.Succs[0])
		return
	case okF && !okT:
		st.noteImplied(notc)
		st.jump(fr, fr.block.Succs[1])
		return
	}
	if st.inst.NoMerge == false && st.tryMerge(fr, c, mT, mF) {
		return
	}
	k := st.chooseWithModels([]*term.Node{c, notc}, []*term.Model{mT, mF})
	st.jump(fr, fr.block.Succs[k])
}

// chooseWithModels is choose() for alternatives already known to be feasible.
func (st *State) chooseWithModels(guards []*term.Node, models []*term.Model) int {
	if st.forcedPos < len(st.forced) {
		k := st.forced[st.forcedPos]
		st.forcedPos++
		st.decisions = append(st.decisions, k)
		st.checkReplayedGuard(guards, k)
		st.pushPC(guards[k])
		return k
	}
	if st.spec != nil {
		panic(specAbort{"fork inside speculation"})
	}
	st.flushObligs()
	var alts []altern
	for i := 1; i < len(guards); i++ {
		alts = append(alts, altern{i, models[i], guards[i]})
	}
	cp := &choicePoint{trailMark: st.instrMark, gs: copyGs(st.gs), curID: st.cur.id, pc: st.pc,
		prefix: append([]int(nil), st.decisions...), alts: alts, serial: st.serial, mapDesc: st.mapDesc}
	cp.lockOwner = map[*Object]int{}
	for k, v := range st.lockOwner {
		cp.lockOwner[k] = v
	}
	st.cps = append(st.cps, cp)
	st.res.Forks += len(alts)
	st.decisions = append(st.decisions, 0)
	st.pushPC(guards[0])
	st.setModel(models[0])
	return 0
}

type cellKey struct {
	obj *Object
	off int
}

type armResult struct {
	ret     Value
	writes  map[cellKey]Value
	order   []cellKey
	phis    []Value
	mapW    bool
	assumes []*term.Node // conditions added to the path condition inside the arm
}

func (st *State) runArm(fr *Frame, succ *ssa.BasicBlock, join *ssa.BasicBlock, guard *term.Node, m *term.Model) (res *armResult, ok bool) {
	g := st.cur
	mark := len(st.trail)
	savedPC := st.pc
	savedModel := st.model
	savedSpec := st.spec
	savedBlock, savedPrev, savedIP := fr.block, fr.prev, fr.ip
	savedRegs := append([]Value(nil), fr.regs...)
	savedDefers := len(fr.defers)
	depth := len(g.frames)
	savedForks := len(st.cps)
	savedDec := len(st.decisions)
	var caller *Frame
	var callerIP int
	var callerReg Value
	if depth >= 2 {
		// an arm may return from the branching frame (which advances the caller): always restore the caller
		caller = g.frames[depth-2]
		callerIP = caller.ip
		if fr.retReg >= 0 {
			callerReg = caller.regs[fr.retReg]
		}
	}
	var steps int
	if savedSpec != nil {
		steps = savedSpec.steps
	}
	defer func() {
		// always undo the arm's effects
		r := recover()
		if len(st.cps) != savedForks {
			panic("internal: choice point created during speculation")
		}
		if r != nil {
			if _, isAbort := r.(specAbort); !isAbort {
				if pe, isEnd := r.(pathEnd); isEnd && pe.reason == "infeasible" {
					// an arm that turns out infeasible: treat as abort -> fork decides
					r = specAbort{"infeasible arm"}
				} else {
					st.rollback(mark)
					panic(r)
				}
			}
			if sa, isA := r.(specAbort); isA && st.res.AbortReasons != nil {
				st.res.AbortReasons[sa.reason+" @ "+fr.fn.Name()]++
			}
			st.cur = g
			g.frames = g.frames[:depth]
			ok = false
		}
		st.rollback(mark)
		st.pc = savedPC
		st.rebuildSubst()
		st.decisions = st.decisions[:savedDec]
		st.setModel(savedModel)
		st.spec = savedSpec
		fr.block, fr.prev, fr.ip = savedBlock, savedPrev, savedIP
		copy(fr.regs, savedRegs)
		if caller != nil {
			g.frames = g.frames[:depth]
			g.frames[depth-1] = fr
			caller.ip = callerIP
			if fr.retReg >= 0 {
				caller.regs[fr.retReg] = callerReg
			}
		}
		if len(fr.defers) != savedDefers {
			fr.defers = fr.defers[:savedDefers]
			ok = false
		}
	}()
	st.spec = &specCtx{frame: fr, join: join, g: g, depth: depth, steps: steps, lazy: st.lazyLimit}
	if savedSpec != nil && savedSpec.lazy > 0 {
		st.spec.lazy = savedSpec.lazy
	}
	// keep buffered obligations attached to their own pc: pushPC flushes; avoid flushing during speculation
	n := 1
	if st.pc != nil {
		n = st.pc.n + 1
	}
	st.pc = &pcList{cond: guard, prev: st.pc, n: n}
	st.noteBinding(guard)
	armBase := st.pc
	st.setModel(m)
	st.jump(fr, succ)
	st.run()
	if savedSpec != nil {
		savedSpec.steps = st.spec.steps
	}
	// A register that already had a value before the arm and has a different one now belongs to a
	// block that was re-entered (loop header, range iterator): its new value would be live after the
	// join, which the merge below cannot express -> fork instead.
	for i, v := range fr.regs {
		if join == nil {
			break
		}
		if savedRegs[i] != nil && v != nil && !st.sameValue(savedRegs[i], v) {
			if _, isIter := v.(*RangeIter); isIter {
				panic(specAbort{"iterator advanced inside arm"})
			}
			// only definitions whose block dominates the join are live after it
			if in, ok := fr.info.Vals[i].(ssa.Instruction); ok && in.Block() != nil && in.Block().Dominates(join) {
				panic(specAbort{"loop-carried register redefined inside arm"})
			}
		}
	}
	// collect effects
	res = &armResult{writes: map[cellKey]Value{}}
	for q := st.pc; q != nil && q != armBase; q = q.prev {
		if q.implied {
			continue
		}
		res.assumes = append(res.assumes, q.cond)
	}
	for i := mark; i < len(st.trail); i++ {
		e := &st.trail[i]
		if e.obj == nil {
			res.mapW = true
			continue
		}
		k := cellKey{e.obj, e.off}
		if _, seen := res.writes[k]; !seen {
			res.order = append(res.order, k)
		}
		res.writes[k] = e.obj.Cells[e.off]
	}
	if res.mapW {
		panic(specAbort{"map or channel mutation in arm"})
	}
	if join == nil {
		if fr.retReg >= 0 {
			res.ret = caller.regs[fr.retReg]
		}
		return res, true
	}
	if st.spec.landed {
		res.phis = st.spec.landedPhis
		return res, true
	}
	predIdx := -1
	for i, p := range join.Preds {
		if p == fr.prev {
			predIdx = i
		}
	}
	if predIdx < 0 {
		panic(specAbort{"join reached from unknown predecessor"})
	}
	for _, i2 := range join.Instrs {
		ph, isPhi := i2.(*ssa.Phi)
		if !isPhi {
			break
		}
		res.phis = append(res.phis, st.get(fr, ph.Edges[predIdx]))
	}
	return res, true
}

func (st *State) tryMerge(fr *Frame, c *term.Node, mT, mF *term.Model) bool {
	join := -1
	if fr.info.IPDom != nil {
		join = fr.info.IPDom[fr.block.Index]
	}
	var jb *ssa.BasicBlock
	if join < 0 {
		// no common block before the function exit: merge at the return, if this frame has a
		// caller waiting for an ordinary call result
		g := st.cur
		if len(g.frames) < 2 || len(fr.defers) > 0 {
			return false
		}
		caller := g.frames[len(g.frames)-2]
		if _, isRD := caller.block.Instrs[caller.ip].(*ssa.RunDefers); isRD {
			return false
		}
	} else {
		jb = fr.fn.Blocks[join]
	}
	notc := st.b.BNot(c)
	// obligations created inside arms must not be flushed with a wrong pc: flush what we have first
	if st.spec == nil {
		st.flushObligs()
	}
	ra, ok := st.runArm(fr, fr.block.Succs[0], jb, c, mT)
	if !ok {
		st.res.MergeAborts++
		return false
	}
	rb, ok := st.runArm(fr, fr.block.Succs[1], jb, notc, mF)
	if !ok {
		st.res.MergeAborts++
		return false
	}
	// apply merged writes
	keys := append([]cellKey(nil), ra.order...)
	for _, k := range rb.order {
		if _, dup := ra.writes[k]; !dup {
			keys = append(keys, k)
		}
	}
	type upd struct {
		k cellKey
		v Value
	}
	var upds []upd
	for _, k := range keys {
		cur := k.obj.Cells[k.off]
		va, oka := ra.writes[k]
		if !oka {
			va = cur
		}
		vb, okb := rb.writes[k]
		if !okb {
			vb = cur
		}
		mv, ok := st.mergeValues(c, va, vb)
		if !ok {
			st.res.MergeAborts++
			return false
		}
		upds = append(upds, upd{k, mv})
	}
	var phiVals []Value
	for i := range ra.phis {
		mv, ok := st.mergeValues(c, ra.phis[i], rb.phis[i])
		if !ok {
			st.res.MergeAborts++
			return false
		}
		phiVals = append(phiVals, mv)
	}
	var retVal Value
	if jb == nil && fr.retReg >= 0 {
		mv, ok := st.mergeValues(c, ra.ret, rb.ret)
		if !ok {
			st.res.MergeAborts++
			return false
		}
		retVal = mv
	}
	for _, u := range upds {
		st.write(u.k.obj, u.k.off, u.v)
	}
	// assumptions made inside the arms survive as implications
	for i := len(ra.assumes) - 1; i >= 0; i-- {
		st.pushPC(st.b.Implies(c, ra.assumes[i]))
	}
	for i := len(rb.assumes) - 1; i >= 0; i-- {
		st.pushPC(st.b.Implies(notc, rb.assumes[i]))
	}
	if len(ra.assumes)+len(rb.assumes) > 0 {
		// the current model need not satisfy the new implications
		ok, m := st.feasible(st.b.True)
		if !ok {
			panic(pathEnd{"infeasible"})
		}
		st.setModel(m)
	}
	if jb == nil {
		st.doReturn(fr, retVal)
		st.res.Merges++
		return true
	}
	if st.spec != nil && st.spec.frame == fr && st.spec.join == jb && st.spec.g == st.cur {
		// this merge ends at the join block of the enclosing arm: hand the merged phi values to it
		st.spec.landed = true
		st.spec.landedPhis = phiVals
		fr.prev = fr.block
		fr.block = jb
		fr.ip = 0
		st.res.Merges++
		return true
	}
	fr.prev = fr.block
	fr.block = jb
	for i, v := range phiVals {
		st.set(fr, jb.Instrs[i].(*ssa.Phi), v)
	}
	fr.ip = len(phiVals)
	st.res.Merges++
	return true
}

// mergeValues builds ite(c, a, b) for arbitrary values.
func (st *State) mergeValues(c *term.Node, a, b Value) (Value, bool) {
	if st.sameValue(a, b) {
		return a, true
	}
	switch x := a.(type) {
	case *term.Node:
		y, ok := b.(*term.Node)
		if !ok || x.W != y.W {
			return nil, false
		}
		return st.b.Ite(c, x, y), true
	case Agg:
		y, ok := b.(Agg)
		if !ok || len(x) != len(y) {
			return nil, false
		}
		out := make(Agg, len(x))
		for i := range x {
			v, ok := st.mergeValues(c, x[i], y[i])
			if !ok {
				return nil, false
			}
			out[i] = v
		}
		return out, true
	case Str:
		if y, ok := b.(Str); ok && len(x.B) == len(y.B) {
			out := Str{B: make([]*term.Node, len(x.B))}
			for i := range x.B {
				out.B[i] = st.b.Ite(c, x.B[i], y.B[i])
			}
			return out, true
		}
	case Float:
		return nil, false
	}
	if a == nil || b == nil {
		return nil, false
	}
	return st.mkMux([]*term.Node{c, st.b.BNot(c)}, []Value{a, b}), true
}

// mkMux builds a guarded choice, flattening nested choices.
func (st *State) mkMux(gs []*term.Node, vs []Value) Value {
	var G []*term.Node
	var V []Value
	for i, v := range vs {
		if gs[i] == st.b.False {
			continue
		}
		if mx, ok := v.(Mux); ok {
			for j := range mx.V {
				g := st.b.BAnd(gs[i], mx.G[j])
				if g != st.b.False {
					G = append(G, g)
					V = append(V, mx.V[j])
				}
			}
			continue
		}
		G = append(G, gs[i])
		V = append(V, v)
	}
	// merge identical alternatives
	for i := 0; i < len(V); i++ {
		for j := i + 1; j < len(V); {
			if st.sameValue(V[i], V[j]) {
				G[i] = st.b.BOr(G[i], G[j])
				G = append(G[:j], G[j+1:]...)
				V = append(V[:j], V[j+1:]...)
			} else {
				j++
			}
		}
	}
	if len(V) == 1 {
		return V[0]
	}
	if len(V) == 0 {
		panic(pathEnd{"infeasible"})
	}
	return Mux{G: G, V: V}
}

// muxValues merges alternatives (exactly one guard holds) into a single value.
func (st *State) muxValues(gs []*term.Node, vs []Value) Value {
	if len(vs) == 1 {
		return vs[0]
	}
	allNodes, allAgg, allStr := true, true, true
	n := -1
	for _, v := range vs {
		switch x := v.(type) {
		case *term.Node:
			allAgg, allStr = false, false
		case Agg:
			allNodes, allStr = false, false
			if n >= 0 && n != len(x) {
				allAgg = false
			}
			n = len(x)
		case Str:
			allNodes, allAgg = false, false
			if n >= 0 && n != len(x.B) {
				allStr = false
			}
			n = len(x.B)
		default:
			allNodes, allAgg, allStr = false, false, false
		}
	}
	switch {
	case allNodes:
		r := vs[len(vs)-1].(*term.Node)
		for i := len(vs) - 2; i >= 0; i-- {
			r = st.b.Ite(gs[i], vs[i].(*term.Node), r)
		}
		return r
	case allAgg:
		out := make(Agg, n)
		for f := 0; f < n; f++ {
			col := make([]Value, len(vs))
			for i, v := range vs {
				col[i] = v.(Agg)[f]
			}
			out[f] = st.muxValues(gs, col)
		}
		return out
	case allStr:
		out := Str{B: make([]*term.Node, n)}
		for f := 0; f < n; f++ {
			r := vs[len(vs)-1].(Str).B[f]
			for i := len(vs) - 2; i >= 0; i-- {
				r = st.b.Ite(gs[i], vs[i].(Str).B[f], r)
			}
			out.B[f] = r
		}
		return out
	}
	return st.mkMux(gs, vs)
}

func (st *State) isConcrete(v Value) bool {
	switch x := v.(type) {
	case *term.Node:
		return x.IsConst()
	case Str:
		for _, b := range x.B {
			if !b.IsConst() {
				return false
			}
		}
		return true
	case Agg:
		for _, e := range x {
			if !st.isConcrete(e) {
				return false
			}
		}
		return true
	case Mux, SymPtr:
		return false
	}
	return true
}

func (st *State) sameValue(a, b Value) bool {
	switch x := a.(type) {
	case *term.Node:
		y, ok := b.(*term.Node)
		return ok && x == y
	case Ptr:
		y, ok := b.(Ptr)
		return ok && x == y
	case Slice:
		y, ok := b.(Slice)
		return ok && x == y
	case Float:
		y, ok := b.(Float)
		return ok && (x.F == y.F || (math.IsNaN(x.F) && math.IsNaN(y.F)))
	case Str:
		y, ok := b.(Str)
		if !ok || len(x.B) != len(y.B) {
			return false
		}
		for i := range x.B {
			if x.B[i] != y.B[i] {
				return false
			}
		}
		return true
	case Iface:
		y, ok := b.(Iface)
		if !ok {
			return false
		}
		if x.T == nil || y.T == nil {
			return x.T == nil && y.T == nil
		}
		return types.Identical(x.T, y.T) && st.sameValue(x.V, y.V)
	case Agg:
		y, ok := b.(Agg)
		if !ok || len(x) != len(y) {
			return false
		}
		for i := range x {
			if !st.sameValue(x[i], y[i]) {
				return false
			}
		}
		return true
	case *Closure:
		y, ok := b.(*Closure)
		if !ok {
			return false
		}
		if x == nil || y == nil {
			return x == y
		}
		if x.Fn != y.Fn || x.Builtin != y.Builtin || len(x.Bindings) != len(y.Bindings) {
			return false
		}
		for i := range x.Bindings {
			if !st.sameValue(x.Bindings[i], y.Bindings[i]) {
				return false
			}
		}
		return true
	case *MapObj:
		y, ok := b.(*MapObj)
		return ok && x == y
	case *ChanObj:
		y, ok := b.(*ChanObj)
		return ok && x == y
	case *RangeIter:
		y, ok := b.(*RangeIter)
		return ok && x == y
	case SymPtr:
		y, ok := b.(SymPtr)
		return ok && x.Obj == y.Obj && x.Base == y.Base && x.ES == y.ES && x.N == y.N && x.Idx == y.Idx && x.Sub == y.Sub
	case Mux:
		y, ok := b.(Mux)
		if !ok || len(x.V) != len(y.V) {
			return false
		}
		for i := range x.V {
			if x.G[i] != y.G[i] || !st.sameValue(x.V[i], y.V[i]) {
				return false
			}
		}
		return true
	case RatF:
		y, ok := b.(RatF)
		if !ok || len(x.N) != len(y.N) {
			return false
		}
		for i := range x.N {
			if x.N[i] != y.N[i] || x.D[i] != y.D[i] {
				return false
			}
		}
		return true
	case nil:
		return b == nil
	}
	return false
}

var _ = token.NoPos
