package utils

// Reed-Solomon obligations that use the exported API only (NewGaloisField, NewReedSolomonEncoder,
// Encode): they keep compiling when the encoder's internals are refactored.

// vpCheckEncodeCore: data||encode(data,e) vanishes at alpha^(base) .. alpha^(base+e-1).
func vpCheckEncodeCore(gf *GaloisField, pp int, tag string, k, e int, encode func(data []int, e int) []int) []int {
	m := VPLog2(gf.Size)
	data := make([]int, k)
	for i := 0; i < k; i++ {
		data[i] = vpIntRange(vpIdx(tag, i), 0, gf.Size-1)
	}
	given := make([]int, k)
	copy(given, data)
	ecc := encode(data, e)
	vpAssert(len(ecc) == e, "Encode returns exactly eccCount symbols")
	for i := 0; i < k; i++ {
		vpAssert(data[i] == given[i], "Encode does not modify its input")
	}
	for j := 0; j < e && j < len(ecc); j++ {
		vpAssert(ecc[j] >= 0 && ecc[j] < gf.Size, "check symbols are field elements")
	}
	if len(ecc) == e {
		for j := 0; j < e; j++ {
			root := VPPowRef(pp, m, gf.Base+j)
			acc := 0
			for i := 0; i < k; i++ {
				acc = VPGFMulRef(pp, m, acc, root) ^ data[i]
			}
			for i := 0; i < e; i++ {
				acc = VPGFMulRef(pp, m, acc, root) ^ ecc[i]
			}
			vpAssert(acc == 0, "data||check evaluates to zero at every required power of the generator element")
		}
	}
	return data
}

// VP_RS_fields: encoders over different fields of the same size used one after the other in one
// process (QR 0x11D base 0, DataMatrix 0x12D base 1, Aztec 0x12D base 1, a second GF(64)/GF(16)
// pair): what one field's encoder computed or cached must not leak into another's results.
// Config: order selects the permutation, k and e the sizes, d0 a degree requested first.
func VP_RS_fields() {
	type fld struct{ pp, size, base int }
	sets := [][]fld{
		{{0x11D, 256, 0}, {0x12D, 256, 1}, {0x11D, 256, 1}},
		{{0x43, 64, 1}, {0x43, 64, 0}, {0x13, 16, 1}},
	}
	set := sets[vpConfig("set")]
	perms := [][]int{{0, 1, 2}, {1, 0, 2}, {2, 1, 0}, {1, 2, 0}}
	perm := perms[vpConfig("order")]
	k, e := vpConfig("k"), vpConfig("e")
	for step, fi := range perm {
		f := set[fi]
		gf := NewGaloisField(f.pp, f.size, f.base)
		rs := NewReedSolomonEncoder(gf)
		if d0 := vpConfig("d0"); d0 > 0 && step == 0 {
			rs.Encode([]int{1}, d0)
		}
		vpCheckEncodeCore(gf, f.pp, string(rune('a'+step)), k, e, rs.Encode)
	}
	vpCover("reached", true)
}

// vpSyndromesZero: data||ecc vanishes at alpha^(base) .. alpha^(base+e-1) (reference arithmetic only).
func vpSyndromesZero(gf *GaloisField, pp int, data, ecc []int) bool {
	m := VPLog2(gf.Size)
	ok := true
	for j := 0; j < len(ecc); j++ {
		root := VPPowRef(pp, m, gf.Base+j)
		acc := 0
		for _, d := range data {
			acc = VPGFMulRef(pp, m, acc, root) ^ d
		}
		for _, c := range ecc {
			acc = VPGFMulRef(pp, m, acc, root) ^ c
		}
		ok = ok && acc == 0
	}
	return ok
}

// VP_RS_concurrent (C16): two goroutines use one encoder at the same time, both needing generator
// polynomials that are not cached yet. The executor runs them under the schedule in which every
// Unlock is a preemption point, so that critical sections of the two callers alternate: whatever
// the encoder reads under the lock must still be valid when it writes (no check-then-act across a
// released lock). Each caller, and a third call afterwards, must get check symbols with zero
// syndromes. Natively the two goroutines really run in parallel; the attempt is repeated on fresh
// encoders (vpNativeRepeat) with a longer computation to widen the window.
func VP_RS_concurrent() {
	pp, size, base := vpConfig("pp"), vpConfig("size"), vpConfig("base")
	e1, e2 := vpConfig("e1"), vpConfig("e2")
	gf := NewGaloisField(pp, size, base)
	d1 := []int{vpIntRange("a00", 0, size-1), vpIntRange("a01", 0, size-1)}
	d2 := []int{vpIntRange("b00", 0, size-1)}
	scale := vpNativeRepeat(12) // 1 under the executor
	for rep := 0; rep < vpNativeRepeat(200); rep++ {
		rs := NewReedSolomonEncoder(gf)
		c1, c2 := make(chan []int), make(chan []int)
		go func() { c1 <- rs.Encode(d1, e1*scale) }()
		go func() { c2 <- rs.Encode(d2, e2*scale) }()
		r1 := <-c1
		r2 := <-c2
		vpAssert(len(r1) == e1*scale && vpSyndromesZero(gf, pp, d1, r1), "first concurrent caller gets correct check symbols")
		vpAssert(len(r2) == e2*scale && vpSyndromesZero(gf, pp, d2, r2), "second concurrent caller gets correct check symbols")
		r3 := rs.Encode(d1, e2*scale)
		vpAssert(len(r3) == e2*scale && vpSyndromesZero(gf, pp, d1, r3), "the encoder is still correct after concurrent use")
	}
	vpCover("reached", true)
}
