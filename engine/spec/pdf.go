package spec

import "vpengine/exec"

func init() {
	oracle := "reference model harness/pdf417/oracle_pdf417.go written from ISO/IEC 15438 (row indicators, start/stop, RS over GF(929) with generator prod(x-3^i), text/byte/numeric compaction decoder following the ZXing reader where the standard is ambiguous, pattern structure rules), validated natively against 58536 library symbols"
	reg(&Oblig{ID: "PDF-table", Pkg: "pdf417", Func: "VP_PDF_table", Props: []string{"C04"}, Desc: "all 3 x 929 codeword patterns: 17 modules, 4 bars + 4 spaces of width 1..6, bar first, cluster number 0/3/6 of their table",
		Real: []string{"pdf417.codewords"}, Stubs: []string{oracle, "order of the patterns inside a cluster cannot be derived from a rule; not checked"}, Bound: "all 2787 entries (concrete)"})
	reg(&Oblig{ID: "PDF-A-text", Pkg: "pdf417", Func: "VP_PDF_text", Props: []string{"C04"}, Desc: "encodeText from each of the 4 sub-modes on symbolic text: the reference reader started in the same sub-mode reads the text and ends in the sub-mode the encoder returns",
		Real: []string{"pdf417.encodeText"}, Stubs: []string{oracle, "text characters: TAB, LF, CR, 32..126 (symbolic)"}, Bound: "n <= 2 symbolic characters x 4 start sub-modes quick; n <= 3 thorough",
		Configs: func(tier string, seed int64) []map[string]int {
			top := 2
			if tier == "thorough" {
				top = 3
			}
			return cross(one("n", rng(0, top)...), one("sub", 0, 1, 2, 3))
		}})
	reg(&Oblig{ID: "PDF-A-hl", Pkg: "pdf417", Func: "VP_PDF_hl", Props: []string{"C04", "C10"}, Desc: "highlevelEncode on symbolic bytes after concrete prefixes establishing text / byte / numeric / punctuation states: the reference decoder returns the data byte for byte",
		Real:  []string{"pdf417.highlevelEncode", "pdf417.encodeText", "pdf417.encodeBinary", "pdf417.encodeNumeric", "pdf417.determineConsecutive*"},
		Stubs: []string{oracle, "math/big modelled for values below 2^63 (digit runs up to 17 digits); longer symbolic digit runs are outside the claim"},
		Bound: "n <= 2 fully symbolic bytes after each of 6 prefixes quick; n <= 3 thorough; 1 symbolic byte between 5 prefixes (text runs ending in Upper/Lower/Mixed/Punctuation) and a concrete lower-case continuation",
		Configs: func(tier string, seed int64) []map[string]int {
			top := 2
			if tier == "thorough" {
				top = 3
			}
			var out []map[string]int
			for p := 0; p <= 5; p++ {
				for n := 0; n <= top; n++ {
					if p == 0 && n == 0 {
						continue
					}
					out = append(out, map[string]int{"n": n, "prefix": p, "suffix": 0})
				}
			}
			// one symbolic byte between a text run ending in each sub-mode and a concrete continuation
			// (upper-case and punctuation continuations were tried: their well-formedness VCs exceed the
			// 60 s time-out, so only the lower-case continuation is registered)
			for _, p := range []int{1, 4, 6, 7, 8} {
				out = append(out, map[string]int{"n": 1, "prefix": p, "suffix": 1})
			}
			return out
		}})
	reg(&Oblig{ID: "PDF-B", Pkg: "pdf417", Func: "VP_PDF_dims", Props: []string{"C04", "C13", "C10"}, Desc: "calcDimensions / getPadding: a shape within 2..30 x 2..30 is found whenever one exists, holds all codewords, has less than one row of padding; out-of-range result otherwise",
		Real: []string{"pdf417.calcDimensions", "pdf417.calculateNumberOfRows", "pdf417.getPadding"}, Stubs: []string{"data-word count enumerated concretely (every value 0..930) rather than symbolically: exhaustive over the finite domain, no solver involved"},
		Bound: "every data-word count 0..930 x levels 0..8", Configs: func(string, int64) []map[string]int {
			var out []map[string]int
			for l := 0; l <= 8; l++ {
				out = append(out, map[string]int{"level": l, "mlo": 0, "mhi": 930})
			}
			return out
		}})
	reg(&Oblig{ID: "PDF-C", Pkg: "pdf417", Func: "VP_PDF_rs", Props: []string{"C04", "C12"}, Desc: "securitylevel.Compute on symbolic data codewords equals the remainder modulo prod(x-3^i) over GF(929); 2^(level+1) check codewords; input untouched",
		Real: []string{"(pdf417.securitylevel).Compute", "(pdf417.securitylevel).ErrorCorrectionWordCount", "pdf417.correctionFactors"}, Stubs: []string{oracle},
		Bound: "n = 1 symbolic codeword for levels 0..8 (pins every coefficient of every generator polynomial), n <= 3 for level 0, n = 2 for level 1 (quick); n <= 3 for levels <= 2 (thorough). Deeper chains of mod-929 arithmetic do not finish in bit-vector mode",
		Configs: func(tier string, seed int64) []map[string]int {
			var out []map[string]int
			for l := 0; l <= 8; l++ {
				out = append(out, map[string]int{"level": l, "n": 1})
			}
			out = append(out, map[string]int{"level": 0, "n": 2}, map[string]int{"level": 0, "n": 3}, map[string]int{"level": 1, "n": 2}, map[string]int{"level": 0, "n": 0})
			if tier == "thorough" {
				out = append(out, map[string]int{"level": 1, "n": 3}, map[string]int{"level": 2, "n": 2}, map[string]int{"level": 2, "n": 3}, map[string]int{"level": 0, "n": 4})
			}
			return out
		},
		Tune: func(in *exec.Instance, tier string) {
			in.VCBatch = 1
			if tier == "thorough" {
				in.VCTimeoutMs = 600000
			} else {
				in.VCTimeoutMs = 180000
			}
		}})
	reg(&Oblig{ID: "PDF-D", Pkg: "pdf417", Func: "VP_PDF_rows", Props: []string{"C04", "C12", "C11", "C13"}, Desc: "EncodeWithColor on class-constrained symbolic content: shape, length descriptor, padding, check codewords, and every module of every row equals the ISO row structure (start, left indicator, data, right indicator, stop, cluster row mod 3, indicator values naming row count, level, column count), each row two pixels high; colours; Content; error exactly when no shape fits",
		Real:  []string{"pdf417.EncodeWithColor", "pdf417.highlevelEncode", "pdf417.encodeData", "pdf417.getLeftCodeWord", "pdf417.getRightCodeWord", "pdf417.getCodeword", "pdf417.renderBarcode", "(*pdfBarcode).At/Bounds/Content/Metadata/ColorModel/ColorScheme"},
		Stubs: []string{oracle, "content class-constrained (upper-case letters: two per codeword; bytes 0x80..0xBF in multiples of six: byte compaction, all codeword values 0..899 reachable) so that its length fixes the number of data codewords; the data codewords are the library's own highlevelEncode output (guarantee side: PDF-A)", "securitylevel.Compute replaced by the reference remainder (value-preserving; guarantee side: PDF-C)"},
		Bound: "letters n in {0..12, 25, 40, 80} and high bytes n in {6, 12, 24} x levels spread 0..8 quick; up to 1850 letters / 1100 bytes (row-count boundaries, > 925 codewords rejected) thorough",
		Configs: func(tier string, seed int64) []map[string]int {
			var out []map[string]int
			ns := append(rng(0, 12), 25, 40, 80)
			if tier == "thorough" {
				ns = append(rng(0, 40), 100, 200, 500, 1000, 1700, 1850, 1852, 1900)
			}
			for i, n := range ns {
				out = append(out, map[string]int{"n": n, "class": 1, "level": i % 9})
				if tier == "thorough" || n%4 == 1 {
					out = append(out, map[string]int{"n": n, "class": 1, "level": (i + 4) % 9})
				}
			}
			bs := []int{6, 12, 24}
			if tier == "thorough" {
				bs = []int{6, 12, 18, 24, 60, 300, 1098, 1110, 1116}
			}
			for i, n := range bs {
				out = append(out, map[string]int{"n": n, "class": 2, "level": (2 * i) % 9})
			}
			out = append(out, map[string]int{"n": 800, "class": 1, "level": 8})
			if tier == "thorough" {
				out = append(out, map[string]int{"n": 1900, "class": 1, "level": 0})
			}
			return out
		},
		Tune: func(in *exec.Instance, tier string) {
			in.Redirect = map[string]string{"(github.com/boombuler/barcode/pdf417.securitylevel).Compute": "pdf417:vpComputeStub"}
		}})
	reg(&Oblig{ID: "PDF-level", Pkg: "pdf417", Func: "VP_PDF_level", Props: []string{"C04", "C10"}, Desc: "security level byte symbolic over 0..255: accepted exactly for 0..8", Real: []string{"pdf417.Encode"}, Bound: "all 256 values (symbolic)"})
}
