package utils

// C18 harnesses: BitList as an append-only bit sequence (inductive step from
// an arbitrary valid state).

// vpArbBitList builds an arbitrary BitList with L data words satisfying the
// representation invariant: 0 <= count <= 32*L and every bit at a position
// >= count is zero.
func vpArbBitList(L int) *BitList {
	bl := new(BitList)
	bl.data = make([]int32, L)
	for k := 0; k < L; k++ {
		bl.data[k] = vpInt32("w", k)
	}
	c := vpInt("count")
	vpAssume(c >= 0 && c <= 32*L)
	bl.count = c
	for k := 0; k < L; k++ {
		w := uint32(bl.data[k])
		if c <= 32*k {
			vpAssume(w == 0)
		} else if c < 32*(k+1) {
			used := uint(c - 32*k) // 1..31 leading bits in use
			vpAssume(w<<used == 0)
		}
	}
	return bl
}

// vpBitAt is the reference reading of bit i of packed words (MSB first).
func vpBitAt(data []int32, i int) bool {
	return (uint32(data[i/32])>>(31-uint(i%32)))&1 == 1
}

func vpCopyWords(d []int32) []int32 {
	c := make([]int32, len(d))
	copy(c, d)
	return c
}

func VP_BL_new() {
	n := vpInt("n")
	vpAssume(n >= 0 && n <= vpConfig("maxn"))
	n = vpConcretize(n)
	bl := NewBitList(n)
	vpAssert(bl.Len() == n, "NewBitList(n) has length n")
	vpAssert(len(bl.data)*32 >= n, "NewBitList(n) has room for n bits")
	for k := 0; k < len(bl.data); k++ {
		vpAssert(bl.data[k] == 0, "NewBitList(n) words are zero (padding invariant)")
	}
	j := vpInt("j")
	if j >= 0 && j < n {
		vpAssert(!bl.GetBit(j), "NewBitList(n) holds only zero bits")
	}
	vpCover("multiple-of-32", n%32 == 0 && n > 0)
	vpCover("not-multiple", n%32 == 5)
}

func VP_BL_get() {
	L := vpConfig("L")
	bl := vpArbBitList(L)
	j := vpInt("j")
	vpAssume(j >= 0 && j < bl.count)
	vpAssert(bl.GetBit(j) == vpBitAt(bl.data, j), "GetBit reads bit j MSB-first from word j/32")
	vpCover("word-boundary", j%32 == 31)
}

func VP_BL_set() {
	L := vpConfig("L")
	bl := vpArbBitList(L)
	c := bl.count
	i := vpInt("i")
	j := vpInt("j")
	v := vpBool("v")
	vpAssume(i >= 0 && i < c)
	vpAssume(j >= 0 && j < 32*L)
	old := vpBitAt(bl.data, j)
	bl.SetBit(i, v)
	got := vpBitAt(bl.data, j)
	vpAssert(bl.Len() == c, "SetBit must not change the length")
	vpAssert(len(bl.data) == L, "SetBit must not reallocate")
	if j == i {
		vpAssert(got == v, "SetBit(i,v) then reading bit i must give v")
		vpAssert(bl.GetBit(i) == v, "SetBit(i,v) then GetBit(i) must give v")
	} else {
		vpAssert(got == old, "SetBit(i,v) must leave every other bit (also the zero padding) unchanged")
	}
	vpCover("same-index", j == i)
	vpCover("other-index", j != i)
	vpCover("last-bit", i == c-1)
}

// k appended bits from an arbitrary state, across growth.
func VP_BL_add() {
	L := vpConfig("L")
	k := vpConfig("k")
	bl := vpArbBitList(L)
	c := bl.count
	before := vpCopyWords(bl.data)
	bits := make([]bool, k)
	for t := 0; t < k; t++ {
		bits[t] = vpBool("b", t)
	}
	bl.AddBit(bits...)
	vpAssert(bl.Len() == c+k, "AddBit(b1..bk) extends the length by k")
	vpAssert(len(bl.data)*32 >= c+k, "AddBit grows the storage as needed")
	for t := 0; t < k; t++ {
		vpAssert(bl.GetBit(c+t) == bits[t], "appended bits appear in order at positions count..count+k-1")
	}
	vpCover("grew", len(bl.data) > L)
	if L > 0 {
		vpCover("no-growth", len(bl.data) == L)
		vpCover("crossed-word", c%32 == 31)
	}
	j := vpInt("j")
	if j >= 0 && j < c {
		vpAssert(bl.GetBit(j) == vpBitAt(before, j), "AddBit must not disturb earlier bits")
	}
	// padding invariant is preserved
	z := vpInt("z")
	if z >= c+k && z < 32*len(bl.data) {
		vpAssert(!vpBitAt(bl.data, z), "bits beyond the new length stay zero")
	}
}

// AddBits / AddByte are loops over AddBit (whose step from an arbitrary state,
// symbolic count included, is BL-add): here the count is a configuration, the
// words and the value are symbolic.
func VP_BL_addbits() {
	L := vpConfig("L")
	n := vpConfig("n")
	bl := vpArbBitList(L)
	vpAssume(bl.count == vpConfig("c"))
	c := vpConfig("c")
	bl.count = c
	before := vpCopyWords(bl.data)
	v := vpInt("v")
	bl.AddBits(v, byte(n))
	vpAssert(bl.Len() == c+n, "AddBits(v,n) extends the length by n")
	for t := 0; t < n; t++ {
		want := (uint64(v)>>uint(n-1-t))&1 == 1
		vpAssert(bl.GetBit(c+t) == want, "AddBits appends the low n bits of v most significant first")
	}
	for j := 0; j < c; j++ {
		vpAssert(bl.GetBit(j) == vpBitAt(before, j), "AddBits must not disturb earlier bits")
	}
	for z := c + n; z < 32*len(bl.data) && z < c+n+70; z++ {
		vpAssert(!vpBitAt(bl.data, z), "bits beyond the new length stay zero")
	}
	vpCover("reached", true)
}

func VP_BL_addbyte() {
	L := vpConfig("L")
	bl := vpArbBitList(L)
	c := bl.count
	before := vpCopyWords(bl.data)
	b := vpByte("b")
	bl.AddByte(b)
	vpAssert(bl.Len() == c+8, "AddByte extends the length by 8")
	for t := 0; t < 8; t++ {
		vpAssert(bl.GetBit(c+t) == ((b>>uint(7-t))&1 == 1), "AddByte appends the byte most significant bit first")
	}
	j := vpInt("j")
	if j >= 0 && j < c {
		vpAssert(bl.GetBit(j) == vpBitAt(before, j), "AddByte must not disturb earlier bits")
	}
}

// byte views: slice and channel
func VP_BL_bytes() {
	L := vpConfig("L")
	bl := vpArbBitList(L)
	c := vpConcretize(bl.count)
	bl.count = c
	words := vpCopyWords(bl.data)
	want := (c + 7) / 8
	bs := bl.GetBytes()
	vpAssert(len(bs) == want, "GetBytes returns ceil(len/8) bytes")
	for j := 0; j < len(bs) && j < want; j++ {
		var ref byte
		for t := 0; t < 8; t++ {
			ref <<= 1
			if 8*j+t < c && vpBitAt(words, 8*j+t) {
				ref |= 1
			}
		}
		vpAssert(bs[j] == ref, "GetBytes packs eight bits per byte MSB first, zero padded")
	}
	n := 0
	for b := range bl.IterateBytes() {
		if n < want {
			var ref byte
			for t := 0; t < 8; t++ {
				ref <<= 1
				if 8*n+t < c && vpBitAt(words, 8*n+t) {
					ref |= 1
				}
			}
			vpAssert(b == ref, "IterateBytes yields the same bytes as the packed sequence")
		}
		n++
	}
	vpAssert(n == want, "IterateBytes yields ceil(len/8) bytes and then closes the channel")
	if L > 0 {
		vpCover("partial-last-byte", c%8 != 0)
	}
	vpCover("empty", c == 0)
}
