package spec

// Engine self-tests run as part of every property's check: small programs with known answers
// whose cover points are only all reachable if the exploration is complete (both sides of every
// fork visited, merges faithful). A failure here makes the whole check inconclusive.
func init() {
	all := []string{"C01", "C02", "C03", "C04", "C05", "C06", "C07", "C08", "C09", "C10", "C11", "C12", "C13", "C14", "C15", "C16", "C17", "C18"}
	for _, f := range []string{"VP_T_forks", "VP_T_strip", "VP_T_maplookup", "VP_T_string", "VP_T_chan", "VP_T_iface", "VP_T_defer", "VP_T_arith", "VP_T_append"} {
		var cfg func(string, int64) []map[string]int
		if f == "VP_T_chan" || f == "VP_T_append" {
			cfg = tiered(one("n", 3), one("n", 3))
		}
		reg(&Oblig{ID: "SELF-" + f[5:], Pkg: ".", Func: f, Props: all, Configs: cfg,
			Desc:  "engine self-test: a small program whose assertions hold for every input and whose cover points need every fork side explored",
			Real:  []string{"(harness only)"},
			Stubs: []string{"none"}, Bound: "fixed small program"})
	}
}
