package exec

import (
	"fmt"
	"go/types"
	"os"
	"runtime/debug"
	"sort"
	"strconv"
	"strings"
	"time"

	"golang.org/x/tools/go/ssa"

	"vpengine/smt"
	"vpengine/term"
)

// Instance is one configuration of one harness function.
type Instance struct {
	Name     string            // display name, e.g. "BL-set[L=2]"
	Pkg      string            // repo-relative package dir ("utils", "." for root)
	Func     string            // harness function name
	Config   map[string]int    // values for vpConfig
	Oblig    string            // obligation id (DESIGN appendix B)
	Props    []string          // properties this instance reports under
	Redirect map[string]string // "full callee name" -> harness function (same package as callee or harness pkg) used as summary/stub

	RatFloat       bool
	NoMerge        bool
	NoLazyMerge    bool
	LazyArmLimit   int
	AllowLeak      bool
	ExpectPanic    string
	MaxConcretize  int
	MergeStepLimit int
	VCBatch        int
	VCTimeoutMs    int
	// YieldAtUnlock: every sync.Mutex.Unlock is a preemption point (the next runnable goroutine
	// continues): the schedule in which critical sections of different goroutines alternate.
	YieldAtUnlock bool
	FeasTimeoutMs int
	StepLimit     int64
	TimeLimit     time.Duration
	Known         []KnownPred
}

// KnownPred characterises a recorded (not repaired) defect by a predicate over harness inputs.
type KnownPred struct {
	ID          string
	Label       string // substring of the obligation label it applies to
	Constraints []KnownConstraint
}

type KnownConstraint struct {
	Input string `json:"input"`
	Op    string `json:"op"`
	Value int64  `json:"value"`
}

func (in *Instance) defaults() {
	if in.MaxConcretize == 0 {
		in.MaxConcretize = 256
	}
	if in.LazyArmLimit == 0 {
		in.LazyArmLimit = 6000
	}
	if in.MergeStepLimit == 0 {
		in.MergeStepLimit = 200000
	}
	if in.VCBatch == 0 {
		in.VCBatch = 64
	}
	if v, err := strconv.Atoi(os.Getenv("VP_VC_TIMEOUT_MS")); err == nil && v > 0 {
		in.VCTimeoutMs = v // experimentation only
	}
	if in.VCTimeoutMs == 0 {
		in.VCTimeoutMs = 120000
	}
	if in.FeasTimeoutMs == 0 {
		in.FeasTimeoutMs = 3000
	}
	if in.StepLimit == 0 {
		in.StepLimit = 200_000_000
	}
}

// Solvers names the binaries used.
type Solvers struct {
	Path string // feasibility solver (z3)
	Pool *smt.Pool
}

// RunInstance explores every path of the harness instance.
func RunInstance(prog *Program, inst *Instance, sv Solvers) (res *InstanceResult) {
	inst.defaults()
	t0 := time.Now()
	res = &InstanceResult{Instance: inst, CoverHit: map[string]bool{}, CoverSeen: map[string]bool{}, Funcs: map[string]int{}, AbortReasons: map[string]int{}}
	res.sem = make(chan struct{}, 64)
	res.keepScripts = os.Getenv("VP_DUMP") != ""
	st := &State{prog: prog, b: term.NewB(), inst: inst, res: res, pool: sv.Pool,
		sizeMemo: map[types.Type]int{}, subst: map[*term.Node]*term.Node{}, bounds: map[*term.Node][2]uint64{}, globals: map[*ssa.Global]*Object{}, lockOwner: map[*Object]int{}, redirect: map[string]*ssa.Function{}}
	st.stepLimit = inst.StepLimit
	if inst.TimeLimit > 0 {
		st.deadline = time.Now().Add(inst.TimeLimit)
	}
	defer func() {
		if r := recover(); r != nil {
			switch e := r.(type) {
			case Unsupported:
				res.Errors = append(res.Errors, e.Msg)
			default:
				res.Errors = append(res.Errors, fmt.Sprintf("internal error: %v\n%s", r, debug.Stack()))
			}
		}
		if st.solver != nil {
			res.FeasQueries = st.solver.Queries
			res.FeasSecs = st.solver.Time.Seconds()
			if os.Getenv("VP_PROF") != "" {
				fmt.Fprintf(os.Stderr, "feasibility: %d queries, total %.2fs, inside solver process %.2fs\n", st.solver.Queries, st.solver.Time.Seconds(), st.solver.proc.Time.Seconds())
			}
			st.solver.close()
		}
		res.wg.Wait()
		res.Steps = st.steps
		res.NodeCount = st.b.NumNodes()
		res.Wall = time.Since(t0).Seconds()
		sort.Strings(res.WriteLog)
	}()
	ps, err := newPathSolver(st.b, sv.Path, inst.FeasTimeoutMs)
	if err != nil {
		res.Errors = append(res.Errors, "cannot start feasibility solver: "+err.Error())
		return
	}
	st.solver = ps
	fn := prog.Func(inst.Pkg, inst.Func)
	if fn == nil {
		msg := fmt.Sprintf("harness %s not found in package %s", inst.Func, inst.Pkg)
		if len(prog.Dropped) > 0 {
			var ds []string
			for f, e := range prog.Dropped {
				ds = append(ds, f+" ("+e+")")
			}
			sort.Strings(ds)
			msg += "; harness files that do not compile against this tree were left out: " + strings.Join(ds, "; ")
		}
		res.Errors = append(res.Errors, msg)
		return
	}
	for from, to := range inst.Redirect {
		parts := strings.SplitN(to, ":", 2)
		tf := prog.Func(parts[0], parts[1])
		if tf == nil {
			res.Errors = append(res.Errors, "redirect target not found: "+to)
			return
		}
		st.redirect[from] = tf
	}
	st.setModel(term.NewModel())
	// package initialisation (concrete), in dependency order
	st.gs = []*G{{id: 0, status: gRunnable}}
	st.cur = st.gs[0]
	for _, path := range prog.initOrder() {
		pk := prog.Pkgs[path]
		if pk == nil {
			continue
		}
		initFn := pk.Func("init")
		if initFn == nil || initFn.Blocks == nil {
			continue
		}
		st.runToCompletion(initFn)
	}
	st.initDone = true
	initSteps := st.steps
	_ = initSteps
	// the harness
	st.gs = []*G{{id: 0, status: gRunnable}}
	st.cur = st.gs[0]
	st.pushFrame(fn, nil, nil, -1)
	st.trail = st.trail[:0]
	st.explore()
	st.flushObligs()
	res.WriteLog = append(res.WriteLog, st.writeLog...)
	return
}

func (p *Program) initOrder() []string {
	// dependencies first: the few stdlib packages whose package-level variables the repo reads, then the repo
	out := []string{"strconv", "image/color", "image"}
	out = append(out, p.RepoPkgs...)
	return out
}

// runToCompletion runs fn (no arguments) concretely on goroutine 0.
func (st *State) runToCompletion(fn *ssa.Function) {
	st.pushFrame(fn, nil, nil, -1)
	func() {
		defer func() {
			if r := recover(); r != nil {
				if pe, ok := r.(pathEnd); ok && pe.reason == "return" {
					return
				}
				panic(r)
			}
		}()
		st.run()
	}()
	st.gs = []*G{{id: 0, status: gRunnable}}
	st.cur = st.gs[0]
	st.pathSteps = 0
}

// explore runs the DFS over all paths.
func (st *State) explore() {
	for {
		endReason := st.runPath()
		st.flushObligs()
		switch endReason {
		case "infeasible":
			st.res.Infeasible++
		default:
			st.res.Paths++
		}
		if st.res.SamplePath == nil && st.model != nil && endReason == "return" {
			st.res.SamplePath = map[string]uint64{}
			ev := term.NewEvaluator(st.model)
			for _, iv := range st.inputVars {
				st.res.SamplePath[iv.ID] = ev.Eval(iv.Node)
			}
		}
		if len(st.cps) == 0 {
			return
		}
		if st.inst.TimeLimit > 0 && !st.deadline.IsZero() && time.Now().After(st.deadline) {
			panic(Unsupported{"time limit exceeded with unexplored paths"})
		}
		cp := st.cps[len(st.cps)-1]
		alt := cp.alts[0]
		cp.alts = cp.alts[1:]
		last := len(cp.alts) == 0
		if last {
			st.cps = st.cps[:len(st.cps)-1]
		}
		st.rollback(cp.trailMark)
		if last {
			st.gs = cp.gs
		} else {
			st.gs = copyGs(cp.gs)
		}
		st.cur = st.gByID(cp.curID)
		st.pc = cp.pc
		st.rebuildSubst()
		st.mapDesc = cp.mapDesc
		st.lockOwner = map[*Object]int{}
		for k, v := range cp.lockOwner {
			st.lockOwner[k] = v
		}
		st.forced = append([]int(nil), cp.prefix...)
		if alt.k >= 0 {
			st.forced = append(st.forced, alt.k)
		}
		st.forcedPos = 0
		st.expectGuard = alt.guard
		st.setModel(alt.model)
		st.pathSteps = 0
		st.spec = nil
	}
}

func (st *State) runPath() (reason string) {
	defer func() {
		if r := recover(); r != nil {
			if pe, ok := r.(pathEnd); ok {
				reason = pe.reason
				return
			}
			panic(r)
		}
	}()
	st.run()
	return "return"
}

// ---------------------------------------------------------------- summary

// Verdict classifies the outcome of an instance.
type Verdict struct {
	Violations   []Violation
	Inconclusive []string
	Known        []Violation
	OK           bool
}

func ufOf(m *term.Model) map[string]map[string]uint64 {
	if m == nil {
		return nil
	}
	return m.UF
}

type Violation struct {
	Instance *Instance
	Kind     string
	Label    string
	Pos      string
	Inputs   map[string]uint64
	UF       map[string]map[string]uint64
}

func (r *InstanceResult) Verdict() Verdict {
	var v Verdict
	for _, e := range r.Errors {
		v.Inconclusive = append(v.Inconclusive, "engine: "+e)
	}
	for _, vr := range r.Results {
		cover := vr.Obs[0].Kind == "cover"
		if vr.Obs[0].Kind == "known" {
			if vr.Result == smt.Sat {
				v.Known = append(v.Known, Violation{Instance: r.Instance, Kind: "known", Label: vr.Obs[0].Label, Pos: vr.Obs[0].Pos, Inputs: vr.Inputs, UF: ufOf(vr.Model)})
			}
			continue
		}
		switch vr.Result {
		case smt.Unknown:
			v.Inconclusive = append(v.Inconclusive, fmt.Sprintf("solver gave no answer for %s %q at %s", vr.Obs[0].Kind, vr.Obs[0].Label, vr.Obs[0].Pos))
		case smt.Sat:
			if cover {
				r.CoverHit[vr.Obs[0].Label] = true
				continue
			}
			for _, i := range vr.Failed {
				o := vr.Obs[i]
				viol := Violation{Instance: r.Instance, Kind: o.Kind, Label: o.Label, Pos: o.Pos, Inputs: vr.Inputs}
				if vr.Model != nil {
					viol.UF = vr.Model.UF
				}
				v.Violations = append(v.Violations, viol)
			}
			if len(vr.Failed) == 0 {
				v.Inconclusive = append(v.Inconclusive, "solver model does not falsify any obligation of its batch (engine/solver mismatch)")
			}
		}
	}
	for l := range r.CoverSeen {
		if !r.CoverHit[l] {
			v.Inconclusive = append(v.Inconclusive, "cover point never reached: "+l)
		}
	}
	if r.Paths == 0 && len(r.Errors) == 0 {
		v.Inconclusive = append(v.Inconclusive, "no feasible path reached the end of the harness (vacuous)")
	}
	v.OK = len(v.Violations) == 0 && len(v.Inconclusive) == 0
	return v
}
