package spec

import "vpengine/exec"

func init() {
	real := []string{"barcode.Scale", "barcode.ScaleWithFill", "barcode.scale1DCode", "barcode.scale2DCode", "barcode.newScaledBC", "(*barcode.scaledBarcode).At/Bounds/Content/Metadata/ColorModel", "(*barcode.intCSscaledBC).CheckSum", "image.Rect"}
	stubs := []string{
		"source barcode = harness stub: bounds (0,0)-(ow,oh), pixels = uninterpreted function src(x,y) (Ackermann-expanded), opaque content/metadata, optional CheckSum / ColorScheme",
		"float64 arithmetic on int-valued operands modelled as exact rationals: int(min(a/b, c/d)) = min(a div b, c div d) (DESIGN section 4, C09: exact below 2^26)",
		"requested size parameterised by its scale factor f: limiting axis = org*f + m (0 <= m < org, symbolic), other axis = org*f + e (0 <= e <= 2^20, symbolic); f enumerated",
	}
	sizes2d := [][2]int{{21, 21}, {1, 1}, {10, 10}, {57, 24}, {177, 177}, {3, 7}}
	sizes1d := [][2]int{{95, 1}, {67, 1}, {1, 1}, {200, 1}}
	mk := func(oneD bool) func(tier string, seed int64) []map[string]int {
		return func(tier string, seed int64) []map[string]int {
			var out []map[string]int
			fs := []int{0, 1, 2, 3, 4, 7}
			sz := sizes2d
			if oneD {
				sz = sizes1d
			}
			if tier == "thorough" {
				fs = []int{0, 1, 2, 3, 4, 5, 6, 7, 8, 9, 10, 16, 31, 100, 1000}
			} else {
				sz = sz[:3]
			}
			n := 0
			for si, s := range sz {
				for _, f := range fs {
					for axis := 0; axis <= 1; axis++ {
						if oneD && axis == 1 {
							continue
						}
						if f == 0 && ((axis == 0 && s[0] == 1) || (axis == 1 && s[1] == 1)) {
							continue // a 1-module axis cannot be undercut by a request >= 1
						}
						n++
						variant := n % 3
						deffill := (n / 3) % 2
						if tier == "thorough" || si == 0 || (f+axis)%2 == 0 {
							out = append(out, map[string]int{"ow": s[0], "oh": s[1], "f": f, "axis": axis, "variant": variant, "deffill": deffill, "maxe": 1 << 20})
						}
					}
				}
			}
			return out
		}
	}
	tune := func(in *exec.Instance, tier string) { in.RatFloat = true }
	reg(&Oblig{ID: "SCALE-2D", Pkg: ".", Func: "VP_SCALE_2d", Props: []string{"C09", "C14"}, Desc: "2D scaling: error iff factor < 1; bounds; every pixel is fill or its f-by-f source block for one centred grid placement; accessors forwarded; default fill",
		Real: real, Stubs: stubs, Bound: "source sizes {21x21, 1x1, 10x10} quick (+57x24, 177x177, 3x7 thorough) x factor f in {0,1,2,3,4,7} quick ({0..10,16,31,100,1000} thorough) x limiting axis x source variant (plain / CheckSum / CheckSum+ColorScheme) x explicit/default fill; margins, excess and 4 pixels symbolic",
		Configs: mk(false), Tune: tune})
	reg(&Oblig{ID: "SCALE-1D", Pkg: ".", Func: "VP_SCALE_1d", Props: []string{"C09", "C14"}, Desc: "1D scaling: width-only factor, full height, centred, fill elsewhere",
		Real: real, Stubs: stubs, Bound: "source widths {95, 67, 1} quick (+200 thorough) x factor as above; height symbolic 1..2^20", Configs: mk(true), Tune: tune})
	reg(&Oblig{ID: "SCALE-dims", Pkg: ".", Func: "VP_SCALE_dims", Props: []string{"C09"}, Desc: "Metadata().Dimensions other than 1 or 2 is refused", Real: real, Bound: "all byte values except 1, 2 (symbolic)", Tune: tune})
	reg(&Oblig{ID: "SCALE-chain", Pkg: ".", Func: "VP_SCALE_chain", Props: []string{"C09", "C14"}, Desc: "a scaled barcode is again a well-formed source (origin-based bounds, same dimensionality and accessors): inductive step for chains of Scale; second round forwards accessors",
		Real: real, Stubs: stubs, Bound: "source 21x21 and 10x10, f in {1,2,5}, both axes, 3 source variants",
		Configs: func(tier string, seed int64) []map[string]int {
			var out []map[string]int
			for _, s := range [][2]int{{21, 21}, {10, 10}} {
				for _, f := range []int{1, 2, 5} {
					for v := 0; v < 3; v++ {
						out = append(out, map[string]int{"ow": s[0], "oh": s[1], "f": f, "axis": (f + v) % 2, "variant": v, "deffill": 1, "maxe": 1 << 16})
					}
				}
			}
			return out
		}, Tune: tune})
}
