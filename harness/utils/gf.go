package utils

// C17 harnesses and reference models: Galois fields, polynomials, Reed-Solomon.

// VPLog2 returns m with size == 1<<m.
func VPLog2(size int) int {
	m := 0
	for (1 << uint(m)) < size {
		m++
	}
	return m
}

// VPGFMulRef is the reference multiplication in GF(2^m) = GF(2)[x]/(pp):
// carry-less product followed by reduction. Written without data-dependent
// branches so that it stays a GF(2)-polynomial in the operand bits.
func VPGFMulRef(pp, m, a, b int) int {
	r := 0
	for i := 0; i < m; i++ {
		r ^= (a << uint(i)) * ((b >> uint(i)) & 1)
	}
	for i := 2*m - 2; i >= m; i-- {
		r ^= (pp << uint(i-m)) * ((r >> uint(i)) & 1)
	}
	// the reduction has cleared bits m..2m-2; the mask states it (a no-op on values, it lets the
	// term layer see that the high bits are zero instead of leaving that to the solver)
	return r & (1<<uint(m) - 1)
}

// VPGFMulSummary stands in for (*GaloisField).Multiply where a harness cuts
// the pipeline there (assume side); C17-O1 discharges it against the real
// table code for every field the library builds. The reduction polynomial is
// recovered from the field's own antilog table: alpha^m = pp mod 2^m.
func VPGFMulSummary(gf *GaloisField, a, b int) int {
	m := VPLog2(gf.Size)
	pp := gf.Size | gf.ALogTbl[m]
	return VPGFMulRef(pp, m, a, b)
}

// VPCheckTables: structural lemmas on the real tables (symbolic index).
func VPCheckTables(gf *GaloisField, pp int) {
	m := VPLog2(gf.Size)
	vpAssert(len(gf.ALogTbl) == gf.Size && len(gf.LogTbl) == gf.Size, "tables have one entry per field element")
	lo, hi := vpConfig("ilo"), vpConfig("ihi")
	if hi > gf.Size-2 {
		hi = gf.Size - 2
	}
	i := vpIntRange("i", lo, hi)
	x := gf.ALogTbl[i]
	nx := gf.ALogTbl[i+1]
	vpAssert(x >= 1 && x < gf.Size, "antilog entries are non-zero field elements")
	vpAssert(nx == VPGFMulRef(pp, m, x, 2), "ALog[i+1] = x * ALog[i]")
	vpAssert(gf.ALogTbl[0] == 1, "ALog[0] = 1")
	a := vpIntRange("a", lo+1, hi+1)
	la := gf.LogTbl[a]
	vpAssert(la >= 0 && la < gf.Size, "log entries are in range")
	vpAssert(gf.ALogTbl[la] == a, "ALog[Log[a]] = a")
	// primitivity: alpha^k = 1 only for k a multiple of size-1
	k := vpIntRange("k", lo+1, hi)
	vpAssert(gf.ALogTbl[k] != 1, "alpha has order size-1")
}

// VPCheckMul: Multiply(a, b) equals the reference product for all a of the
// field and the values of b selected by the configuration.
func VPCheckMul(gf *GaloisField, pp int) {
	m := VPLog2(gf.Size)
	a := vpIntRange("a", 0, gf.Size-1)
	lo, hi, step := vpConfig("blo"), vpConfig("bhi"), vpConfig("bstep")
	for b := lo; b <= hi && b < gf.Size; b += step {
		vpAssert(gf.Multiply(a, b) == VPGFMulRef(pp, m, a, b), "Multiply(a,b) equals the carry-less product modulo the field polynomial")
		vpAssert(gf.Multiply(b, a) == gf.Multiply(a, b), "Multiply is commutative")
	}
	vpCover("reached", a == gf.Size-1)
}

// VPCheckMulSym: both operands symbolic (small fields only).
func VPCheckMulSym(gf *GaloisField, pp int) {
	m := VPLog2(gf.Size)
	a := vpIntRange("a", 0, gf.Size-1)
	b := vpIntRange("b", 0, gf.Size-1)
	c := vpIntRange("c", 0, gf.Size-1)
	ab := gf.Multiply(a, b)
	vpAssert(ab == VPGFMulRef(pp, m, a, b), "Multiply(a,b) equals the reference product (both operands symbolic)")
	vpAssert(ab == gf.Multiply(b, a), "Multiply is commutative")
	vpAssert(gf.Multiply(ab, c) == gf.Multiply(a, gf.Multiply(b, c)), "Multiply is associative")
	vpAssert(gf.AddOrSub(a, b) == a^b, "addition is xor")
}

// VPCheckInv: every non-zero element times its inverse is one.
func VPCheckInv(gf *GaloisField, pp int) {
	m := VPLog2(gf.Size)
	lo, hi := vpConfig("ilo"), vpConfig("ihi")
	if hi > gf.Size-2 {
		hi = gf.Size - 2
	}
	if gf.Size > 1024 {
		// GF(4096): the nested 4096-entry lookups do not finish symbolically (measured: > 60 s per
		// 256-element chunk); the chunk is enumerated concretely instead (no solver involved).
		for c := lo + 1; c <= hi+1; c++ {
			ic := gf.Invers(c)
			vpAssert(ic >= 1 && ic < gf.Size && VPGFMulRef(pp, m, c, ic) == 1 && gf.Multiply(c, ic) == 1, "a * Invers(a) = 1 (enumerated)")
		}
		vpCover("reached", true)
		return
	}
	a := vpIntRange("a", lo+1, hi+1)
	inv := gf.Invers(a)
	vpAssert(inv >= 1 && inv < gf.Size, "Invers(a) is a non-zero field element")
	if gf.Size <= 1024 {
		// both operands symbolic: the reference product is only tractable up to GF(1024);
		// for GF(4096) the statement rests on Multiply (next line), which GF-mul discharges
		vpAssert(VPGFMulRef(pp, m, a, inv) == 1, "a * Invers(a) = 1 (reference product)")
	}
	vpAssert(gf.Multiply(a, inv) == 1, "Multiply(a, Invers(a)) = 1")
}

// VPCheckDiv: division is defined for every non-zero divisor and undoes multiplication.
func VPCheckDiv(gf *GaloisField, pp int) {
	m := VPLog2(gf.Size)
	a := vpIntRange("a", 0, gf.Size-1)
	lo, hi, step := vpConfig("blo"), vpConfig("bhi"), vpConfig("bstep")
	for b := lo; b <= hi && b < gf.Size; b += step {
		if b == 0 {
			continue
		}
		q := gf.Divide(a, b)
		vpAssert(q >= 0 && q < gf.Size, "Divide(a,b) is a field element")
		vpAssert(VPGFMulRef(pp, m, q, b) == a, "Divide(a,b) * b = a")
	}
	vpCover("reached", a == 1)
}

func vpIdx(prefix string, i int) string {
	return prefix + string(rune('0'+i/10)) + string(rune('0'+i%10))
}

// VPPowRef computes alpha^n (alpha = x = 2) with the reference multiplication only.
func VPPowRef(pp, m, n int) int {
	r := 1
	for i := 0; i < n; i++ {
		r = VPGFMulRef(pp, m, r, 2)
	}
	return r
}

// ---- polynomial arithmetic (O4)
//
// One operand is fully symbolic, the other is a concrete polynomial chosen by
// the configuration (all-nonzero, interior zero, leading zero, single term,
// zero polynomial), in both roles. With one side concrete every product is
// GF(2)-linear in the symbolic bits, which the term layer normalises; with both
// sides symbolic the bilinear equivalence query does not finish in any of the
// three solvers even over GF(16) (measured: > 100 s), so that case is outside the claim.

func vpPolyField() (*GaloisField, int, int) {
	pp, size := vpConfig("pp"), vpConfig("size")
	gf := NewGaloisField(pp, size, vpConfig("base"))
	return gf, pp, VPLog2(size)
}

func vpSymCoeffs(gf *GaloisField, prefix string, n int) []int {
	c := make([]int, n)
	for i := 0; i < n; i++ {
		c[i] = vpIntRange(vpIdx(prefix, i), 0, gf.Size-1)
	}
	return c
}

// vpConcCoeffs derives a concrete coefficient list from (sel, seed).
func vpConcCoeffs(gf *GaloisField, n, sel, seed int) []int {
	c := make([]int, n)
	x := seed*7919 + 13
	for i := 0; i < n; i++ {
		x = (x*1103515245 + 12345) % 2147483648
		c[i] = 1 + (x/65536)%(gf.Size-1) // non-zero
	}
	switch sel {
	case 1: // interior zero
		if n > 2 {
			c[1] = 0
		}
	case 2: // leading zero (NewGFPoly strips it)
		c[0] = 0
	case 3: // single term
		for i := 1; i < n; i++ {
			c[i] = 0
		}
	case 4: // zero polynomial
		for i := 0; i < n; i++ {
			c[i] = 0
		}
	case 5: // monic, like a generator polynomial
		c[0] = 1
	}
	return c
}

func vpCopyInts(c []int) []int {
	d := make([]int, len(c))
	copy(d, c)
	return d
}

// vpSameRight compares a (possibly stripped) coefficient list with a padded reference list.
func vpSameRight(got []int, ref []int) bool {
	ok := true
	for i := 0; i < len(ref); i++ {
		gi := i - (len(ref) - len(got))
		if gi < 0 {
			ok = ok && ref[i] == 0
		} else {
			ok = ok && got[gi] == ref[i]
		}
	}
	if len(got) > len(ref) {
		for i := 0; i < len(got)-len(ref); i++ {
			ok = ok && got[i] == 0
		}
	}
	return ok
}

func vpRefMulPoly(pp, m int, a, b []int) []int {
	out := make([]int, len(a)+len(b)-1)
	for i := range a {
		for j := range b {
			out[i+j] ^= VPGFMulRef(pp, m, a[i], b[j])
		}
	}
	return out
}

func vpRefInv(pp, m, size, v int) int {
	for c := 1; c < size; c++ {
		if VPGFMulRef(pp, m, v, c) == 1 {
			return c
		}
	}
	return 0
}

func vpOperands(gf *GaloisField) (ac, bc []int) {
	na, nb := vpConfig("na"), vpConfig("nb")
	if vpConfig("swap") == 0 {
		ac = vpSymCoeffs(gf, "a", na)
		bc = vpConcCoeffs(gf, nb, vpConfig("sel"), vpConfig("seed"))
	} else {
		ac = vpConcCoeffs(gf, na, vpConfig("sel"), vpConfig("seed"))
		bc = vpSymCoeffs(gf, "b", nb)
	}
	return
}

func VP_POLY_ops() {
	gf, pp, m := vpPolyField()
	ac, bc := vpOperands(gf)
	a := NewGFPoly(gf, vpCopyInts(ac))
	b := NewGFPoly(gf, vpCopyInts(bc))
	// sum
	n := len(ac)
	if len(bc) > n {
		n = len(bc)
	}
	refSum := make([]int, n)
	for i := range ac {
		refSum[n-len(ac)+i] ^= ac[i]
	}
	for i := range bc {
		refSum[n-len(bc)+i] ^= bc[i]
	}
	sum := a.AddOrSubstract(b)
	vpAssert(vpSameRight(sum.Coefficients, refSum), "a+b is the coefficient-wise xor")
	vpAssert(len(sum.Coefficients) >= 1 && (len(sum.Coefficients) == 1 || sum.Coefficients[0] != 0), "sum is normalised (no leading zero)")
	// product
	prod := a.Multiply(b)
	vpAssert(vpSameRight(prod.Coefficients, vpRefMulPoly(pp, m, ac, bc)), "a*b equals the schoolbook product over the field")
	vpAssert(len(prod.Coefficients) >= 1 && (len(prod.Coefficients) == 1 || prod.Coefficients[0] != 0), "product is normalised")
	// monomial
	deg := vpConfig("mono")
	c := vpConfig("monoc")
	mono := a.MultByMonominal(deg, c)
	ref := make([]int, len(ac)+deg)
	for i := range ac {
		ref[i] = VPGFMulRef(pp, m, ac[i], c)
	}
	vpAssert(vpSameRight(mono.Coefficients, ref), "a * (c x^deg) scales every coefficient and shifts by deg")
	for i := range ac {
		if i < len(a.Coefficients) {
			vpAssert(a.Coefficients[len(a.Coefficients)-1-i] == ac[len(ac)-1-i], "operands are not modified")
		}
	}
	vpCover("reached", true)
}

func VP_POLY_divide() {
	gf, pp, m := vpPolyField()
	ac, bc := vpOperands(gf)
	a := NewGFPoly(gf, vpCopyInts(ac))
	b := NewGFPoly(gf, vpCopyInts(bc))
	vpAssume(!b.Zero()) // division by the zero polynomial is outside the documented use
	q, r := a.Divide(b)
	// dividend = q*b + r with the reference product, coefficient by coefficient
	qb := vpRefMulPoly(pp, m, q.Coefficients, b.Coefficients)
	n := len(ac)
	if len(qb) > n {
		n = len(qb)
	}
	if len(r.Coefficients) > n {
		n = len(r.Coefficients)
	}
	lhs := make([]int, n)
	for i := range qb {
		lhs[n-len(qb)+i] ^= qb[i]
	}
	for i := range r.Coefficients {
		lhs[n-len(r.Coefficients)+i] ^= r.Coefficients[i]
	}
	rhs := make([]int, n)
	for i := range ac {
		rhs[n-len(ac)+i] = ac[i]
	}
	same := true
	for i := 0; i < n; i++ {
		same = same && lhs[i] == rhs[i]
	}
	vpAssert(same, "dividend = quotient*divisor + remainder")
	vpAssert(r.Zero() || r.Degree() < b.Degree(), "deg remainder < deg divisor")
	vpCover("reached", true)
}
