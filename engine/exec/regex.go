package exec

import (
	"fmt"
	"regexp/syntax"

	"golang.org/x/tools/go/ssa"

	"vpengine/term"
)

// Model of regexp.Compile + (*Regexp).ReplaceAllString for patterns taken from
// constants in the code under test. The subset covers literals, character
// classes, * + ?, concatenation, alternation, ^ and $; the match must be
// anchored at the end of the text ($ as the last element), which makes the
// (leftmost) match unique. Anything else is reported as unsupported.

type regexObj struct {
	pattern string
	re      *syntax.Regexp
}

func init() {
	libIntrinsics["regexp.Compile"] = func(st *State, fr *Frame, fn *ssa.Function, a []Value) Value {
		pat := st.argStr(a[0])
		re, err := syntax.Parse(pat, syntax.Perl)
		if err != nil {
			return Agg{Ptr{}, st.makeError("regexp: " + err.Error())}
		}
		o := st.newObject(1, nil)
		o.Cells[0] = &regexObj{pattern: pat, re: re.Simplify()}
		return Agg{Ptr{Obj: o}, Iface{}}
	}
	libIntrinsics["regexp.MustCompile"] = func(st *State, fr *Frame, fn *ssa.Function, a []Value) Value {
		r := libIntrinsics["regexp.Compile"](st, fr, fn, a).(Agg)
		if r[0].(Ptr).Obj == nil {
			st.certainPanic("regexp.MustCompile: invalid pattern")
		}
		return r[0]
	}
	libIntrinsics["(*regexp.Regexp).ReplaceAllString"] = func(st *State, fr *Frame, fn *ssa.Function, a []Value) Value {
		p := a[0].(Ptr)
		if p.Obj == nil {
			st.certainPanic("nil *regexp.Regexp")
		}
		ro, ok := p.Obj.Cells[0].(*regexObj)
		if !ok {
			panic(st.unsupported("regexp object of unknown origin"))
		}
		src := a[1].(Str)
		repl := a[2].(Str)
		if cs, conc := st.strConcrete(repl); !conc || containsDollar(cs) {
			panic(st.unsupported("regexp replacement must be a constant without $ expansions"))
		}
		body, anchored := stripEndAnchor(ro.re)
		if !anchored {
			panic(st.unsupported(fmt.Sprintf("regexp %q is not anchored at the end of the text; outside the modelled subset", ro.pattern)))
		}
		n := len(src.B)
		m := &reMatcher{st: st, s: src.B, memo: map[reKey]*term.Node{}}
		// match[i] : src[i:n] matches body; the leftmost i wins
		guards := make([]*term.Node, 0, n+2)
		b := st.b
		none := b.True
		for i := 0; i <= n; i++ {
			mi := m.match(body, i, n)
			guards = append(guards, b.BAnd(none, mi))
			none = b.BAnd(none, b.BNot(mi))
		}
		guards = append(guards, none)
		k := st.choose(guards)
		if k == n+1 {
			return src
		}
		out := Str{B: append(append([]*term.Node(nil), src.B[:k]...), repl.B...)}
		return out
	}
}

func containsDollar(s string) bool {
	for i := 0; i < len(s); i++ {
		if s[i] == '$' {
			return true
		}
	}
	return false
}

// stripEndAnchor removes a trailing $ (end of text) from a pattern.
func stripEndAnchor(re *syntax.Regexp) (*syntax.Regexp, bool) {
	if re.Op == syntax.OpConcat && len(re.Sub) > 0 {
		last := re.Sub[len(re.Sub)-1]
		if last.Op == syntax.OpEndText {
			c := *re
			c.Sub = re.Sub[:len(re.Sub)-1]
			return &c, true
		}
	}
	return re, false
}

type reKey struct {
	re   *syntax.Regexp
	i, j int
}

type reMatcher struct {
	st   *State
	s    []*term.Node
	memo map[reKey]*term.Node
}

// match returns the Boolean term "s[i:j] matches re" (byte-level; classes and
// literals outside ASCII are unsupported).
func (m *reMatcher) match(re *syntax.Regexp, i, j int) *term.Node {
	k := reKey{re, i, j}
	if r, ok := m.memo[k]; ok {
		return r
	}
	b := m.st.b
	var r *term.Node
	switch re.Op {
	case syntax.OpEmptyMatch:
		r = b.Bool(i == j)
	case syntax.OpLiteral:
		if j-i != len(re.Rune) {
			r = b.False
			break
		}
		r = b.True
		for t, ru := range re.Rune {
			if ru >= 0x80 || re.Flags&syntax.FoldCase != 0 {
				panic(m.st.unsupported("regexp literal outside ASCII or case-folded"))
			}
			r = b.BAnd(r, b.Eq(m.st.sub(m.s[i+t]), b.Const(8, uint64(ru))))
		}
	case syntax.OpCharClass:
		if j-i != 1 {
			r = b.False
			break
		}
		c := m.st.sub(m.s[i])
		r = b.False
		for t := 0; t+1 < len(re.Rune); t += 2 {
			lo, hi := re.Rune[t], re.Rune[t+1]
			if lo >= 0x80 || hi >= 0x80 {
				panic(m.st.unsupported("regexp character class reaching beyond ASCII (needs rune-level matching)"))
			}
			r = b.BOr(r, b.BAnd(b.Ule(b.Const(8, uint64(lo)), c), b.Ule(c, b.Const(8, uint64(hi)))))
		}
	case syntax.OpAnyCharNotNL, syntax.OpAnyChar:
		panic(m.st.unsupported("regexp '.' (needs rune-level matching)"))
	case syntax.OpBeginText:
		r = b.Bool(i == j && i == 0)
	case syntax.OpEndText:
		r = b.Bool(i == j && i == len(m.s))
	case syntax.OpCapture:
		r = m.match(re.Sub[0], i, j)
	case syntax.OpConcat:
		r = m.concat(re.Sub, i, j)
	case syntax.OpAlternate:
		r = b.False
		for _, s := range re.Sub {
			r = b.BOr(r, m.match(s, i, j))
		}
	case syntax.OpQuest:
		r = b.BOr(b.Bool(i == j), m.match(re.Sub[0], i, j))
	case syntax.OpStar, syntax.OpPlus:
		// reach[p]: s[i:p] is a concatenation of >= 0 (non-empty) matches of sub
		sub := re.Sub[0]
		reach := make([]*term.Node, j+1)
		reach[i] = b.True
		for p := i + 1; p <= j; p++ {
			acc := b.False
			for q := i; q < p; q++ {
				acc = b.BOr(acc, b.BAnd(reach[q], m.match(sub, q, p)))
			}
			reach[p] = acc
		}
		r = reach[j]
		if re.Op == syntax.OpPlus && i == j {
			r = m.match(sub, i, i)
		} else if re.Op == syntax.OpStar && i == j {
			r = b.True
		}
	default:
		panic(m.st.unsupported(fmt.Sprintf("regexp construct %v", re.Op)))
	}
	m.memo[k] = r
	return r
}

func (m *reMatcher) concat(subs []*syntax.Regexp, i, j int) *term.Node {
	b := m.st.b
	if len(subs) == 0 {
		return b.Bool(i == j)
	}
	if len(subs) == 1 {
		return m.match(subs[0], i, j)
	}
	r := b.False
	for k := i; k <= j; k++ {
		l := m.match(subs[0], i, k)
		if l == b.False {
			continue
		}
		r = b.BOr(r, b.BAnd(l, m.concat(subs[1:], k, j)))
	}
	return r
}
