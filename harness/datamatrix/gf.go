package datamatrix

import "github.com/boombuler/barcode/utils"

// DataMatrix ECC200: GF(256) with x^8+x^5+x^3+x^2+1 (0x12D), generator base 1.
func vpDMField() (*utils.GaloisField, int) {
	gf := utils.VPGFOf(newErrorCorrection().rs)
	vpAssert(gf.Size == 256, "DataMatrix field has 256 elements")
	vpAssert(gf.Base == 1, "DataMatrix Reed-Solomon uses generator base 1")
	return gf, 0x12D
}

func VP_GF_tables() { gf, pp := vpDMField(); utils.VPCheckTables(gf, pp) }
func VP_GF_mul()    { gf, pp := vpDMField(); utils.VPCheckMul(gf, pp) }
func VP_GF_inv()    { gf, pp := vpDMField(); utils.VPCheckInv(gf, pp) }
func VP_GF_div()    { gf, pp := vpDMField(); utils.VPCheckDiv(gf, pp) }

func VP_RS_encode() { _, pp := vpDMField(); utils.VPCheckEncode(newErrorCorrection().rs, pp) }
func VP_RS_cache() {
	utils.VPCheckCache(func() *utils.ReedSolomonEncoder { return newErrorCorrection().rs }, 0x12D)
}
func VP_RS_shared() {
	gf := utils.VPGFOf(ec.rs)
	vpAssert(gf.Size == 256 && gf.Base == 1 && gf.ALogTbl[8] == 0x2D, "package-level DataMatrix encoder uses GF(256)/0x12D base 1")
	utils.VPCheckEncode(ec.rs, 0x12D)
}
