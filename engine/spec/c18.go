package spec

import "vpengine/exec"

func init() {
	blReal := []string{"utils.NewBitList", "(*utils.BitList).Len", "(*utils.BitList).grow", "(*utils.BitList).AddBit", "(*utils.BitList).SetBit", "(*utils.BitList).GetBit", "(*utils.BitList).AddByte", "(*utils.BitList).AddBits", "(*utils.BitList).GetBytes", "(*utils.BitList).IterateBytes"}
	inv := "pre-state is an arbitrary BitList with L words, symbolic count in 0..32L and symbolic words, assuming the representation invariant (bits at positions >= count are zero)"
	Ls := tiered(one("L", 0, 1, 2, 3, 4), one("L", 0, 1, 2, 3, 4, 5, 8, 127, 128, 129))
	LsPos := tiered(one("L", 1, 2, 3, 4), one("L", 1, 2, 3, 4, 5, 8, 127, 128, 129))
	reg(&Oblig{ID: "BL-new", Pkg: "utils", Func: "VP_BL_new", Props: []string{"C18"}, Desc: "NewBitList(n): length n, all zero",
		Real: blReal, Bound: "n in 0..maxn (quick 70, thorough 1100), every n enumerated by solver-driven concretisation",
		Configs: tiered(one("maxn", 70), one("maxn", 1100)),
		Tune:    func(in *exec.Instance, tier string) { in.MaxConcretize = 2000 }})
	reg(&Oblig{ID: "BL-get", Pkg: "utils", Func: "VP_BL_get", Props: []string{"C18"}, Desc: "GetBit(j) for symbolic j reads bit j MSB-first",
		Real: blReal, Stubs: []string{inv}, Bound: "L in {1..4} quick, plus {5,8,127,128,129} thorough; count, j, words symbolic", Configs: LsPos})
	reg(&Oblig{ID: "BL-set", Pkg: "utils", Func: "VP_BL_set", Props: []string{"C18"}, Desc: "SetBit(i,v): bit i = v, every other bit and the padding unchanged, length unchanged",
		Real: blReal, Stubs: []string{inv}, Bound: "L in {1..4} quick, plus {5,8,127,128,129} thorough; count, i, j, v, words symbolic", Configs: LsPos})
	reg(&Oblig{ID: "BL-add", Pkg: "utils", Func: "VP_BL_add", Props: []string{"C18"}, Desc: "AddBit(b1..bk) from an arbitrary state incl. growth: length +k, old bits kept, new bits in order, padding invariant kept",
		Real: blReal, Stubs: []string{inv}, Bound: "L as above x k in {1,2,3}; growth edges at 0, 127/128/129 words (thorough)",
		Configs: func(tier string, s int64) []map[string]int { return cross(Ls(tier, s), one("k", 1, 2, 3)) }})
	reg(&Oblig{ID: "BL-addbits", Pkg: "utils", Func: "VP_BL_addbits", Props: []string{"C18"}, Desc: "AddBits(v,n): low n bits of symbolic v MSB first, earlier bits and padding untouched",
		Real: blReal, Stubs: []string{inv}, Bound: "count c and n are configurations: c in {0,1,31,32,33,60} (L = 2 words, L = 0 for c = 0) x n in {0,1,7,8,9,31,32,33,63,64} (thorough: c also 4064/4096 with 127/128 words); v and words symbolic",
		Configs: func(tier string, s int64) []map[string]int {
			var out []map[string]int
			ns := []int{0, 1, 7, 8, 9, 31, 32, 33, 63, 64}
			cs := [][2]int{{0, 0}, {0, 1}, {1, 2}, {31, 2}, {32, 2}, {33, 2}, {60, 2}}
			if tier == "thorough" {
				cs = append(cs, [2]int{4064, 127}, [2]int{4090, 128}, [2]int{4096, 128})
			}
			for _, c := range cs {
				for _, n := range ns {
					out = append(out, map[string]int{"c": c[0], "L": c[1], "n": n})
				}
			}
			return out
		}})
	reg(&Oblig{ID: "BL-addbyte", Pkg: "utils", Func: "VP_BL_addbyte", Props: []string{"C18"}, Desc: "AddByte(b): 8 bits MSB first",
		Real: blReal, Stubs: []string{inv}, Bound: "L in {0,1,2} quick, {0..4} thorough; count, byte and words symbolic", Configs: tiered(one("L", 0, 1, 2), one("L", 0, 1, 2, 3, 4))})
	reg(&Oblig{ID: "BL-bytes", Pkg: "utils", Func: "VP_BL_bytes", Props: []string{"C18", "C16"}, Desc: "GetBytes and IterateBytes: packed bytes, zero padded, channel closed after the last byte",
		Real: blReal, Stubs: []string{inv, "IterateBytes goroutine run as a coroutine (Kahn producer)"}, Bound: "L in {0..3} quick (+4,5 thorough), every count 0..32L enumerated, words symbolic",
		Configs: tiered(one("L", 0, 1, 2, 3), one("L", 0, 1, 2, 3, 4, 5)),
		Tune:    func(in *exec.Instance, tier string) { in.MaxConcretize = 400 }})
}
