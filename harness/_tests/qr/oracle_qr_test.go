package qr

// Native validation of oracle_qr.go against the real encoder.
// Place next to the package (scratch copy of the repo) together with
// oracle_qr.go and run: go test -vet=off -count=1 -run VPOracle ./qr/

import (
	"image/color"
	"testing"
)

type vpTestRand struct{ s uint64 }

func (r *vpTestRand) next() int {
	r.s = r.s*6364136223846793005 + 1442695040888963407
	return int(r.s >> 33)
}

const vpTestAlnum = "0123456789ABCDEFGHIJKLMNOPQRSTUVWXYZ $%*+-./:"

func vpTestContent(r *vpTestRand, mode int, n int) []byte {
	out := make([]byte, n)
	for i := range out {
		switch mode {
		case 1:
			out[i] = byte('0' + r.next()%10)
		case 2:
			out[i] = vpTestAlnum[r.next()%45]
		default:
			out[i] = byte(r.next() % 256)
		}
	}
	return out
}

// largest character count whose segment fits version/level in mode, -1 if none
func vpTestMaxCount(version, level, mode int) int {
	capBits := vpQRDataCodewords(version, level) * 8
	cc := vpQRCharCountBits(version, mode)
	best := -1
	for n := 0; n < 1<<uint(cc) && n <= 7200; n++ {
		if vpQRSegmentBits(version, mode, n) <= capBits {
			best = n
		}
	}
	return best
}

func vpTestIsDark(c color.Color) bool {
	g, ok := c.(color.Gray16)
	if !ok {
		r, _, _, _ := c.RGBA()
		return r == 0
	}
	return g.Y == 0
}

func TestVPOracleGeometry(t *testing.T) {
	for v := 1; v <= 40; v++ {
		// raw module count from the closed formula == count over the function map
		isFunc, _ := vpQRFunctionPatterns(v)
		free := 0
		for x := range isFunc {
			for y := range isFunc[x] {
				if !isFunc[x][y] {
					free++
				}
			}
		}
		if free != vpQRRawModules(v) {
			t.Errorf("v%d: raw modules formula %d, map %d", v, vpQRRawModules(v), free)
		}
		// ISO Table 1 remainder bits
		wantRem := 0
		switch {
		case v >= 2 && v <= 6:
			wantRem = 7
		case v >= 14 && v <= 20, v >= 28 && v <= 34:
			wantRem = 3
		case v >= 21 && v <= 27:
			wantRem = 4
		}
		if vpQRRemainderBits(v) != wantRem {
			t.Errorf("v%d: remainder bits %d want %d", v, vpQRRemainderBits(v), wantRem)
		}
		// alignment centres: evenly spaced rule (integer form), first 6, last dim-7
		c := vpQRAlignmentCentres(v)
		if v == 1 {
			if len(c) != 0 {
				t.Errorf("v1 has alignment patterns")
			}
		} else {
			n := v/7 + 2
			if len(c) != n || c[0] != 6 || c[n-1] != vpQRDim(v)-7 {
				t.Errorf("v%d: alignment centres %v", v, c)
			} else {
				step := (v*8 + n*3 + 5) / (n*4 - 4) * 2
				for i := n - 1; i >= 2; i-- {
					if c[i]-c[i-1] != step {
						t.Errorf("v%d: alignment spacing %v, step %d", v, c, step)
					}
				}
			}
		}
		for l := 0; l < 4; l++ {
			ec, b1, d1, b2, d2 := vpQRBlockSpec(v, l)
			if b1*(d1+ec)+b2*(d2+ec) != vpQRTotalCodewords(v) || b1 < 1 || d1 < 1 || (b2 > 0 && d2 != d1+1) {
				t.Errorf("v%d l%d: block spec %d %d %d %d %d does not sum to %d", v, l, ec, b1, d1, b2, d2, vpQRTotalCodewords(v))
			}
		}
	}
	// a few well known anchors from ISO tables 1, 7, 9
	if vpQRTotalCodewords(1) != 26 || vpQRTotalCodewords(7) != 196 || vpQRTotalCodewords(40) != 3706 {
		t.Errorf("total codewords anchors wrong")
	}
	if vpQRDataCodewords(1, 0) != 19 || vpQRDataCodewords(1, 3) != 9 || vpQRDataCodewords(40, 0) != 2956 || vpQRDataCodewords(40, 3) != 1276 {
		t.Errorf("data codewords anchors wrong")
	}
	// ISO Annex C example: M, mask 5 -> 100000011001110; Annex D: version 7 -> 000111110010010100
	if vpQRFormatBits(1, 5) != 0x40CE {
		t.Errorf("format bits M/5: %#x", vpQRFormatBits(1, 5))
	}
	if vpQRVersionBits(7) != 0x07C94 {
		t.Errorf("version bits 7: %#x", vpQRVersionBits(7))
	}
	// Format words are pairwise distinct (needed for decoding below)
	seen := map[int]bool{}
	for l := 0; l < 4; l++ {
		for m := 0; m < 8; m++ {
			seen[vpQRFormatBits(l, m)] = true
		}
	}
	if len(seen) != 32 {
		t.Errorf("format words not distinct")
	}
	// RS anchor: ISO Annex I example "01234567" version 1-M
	data := []byte{0x10, 0x20, 0x0C, 0x56, 0x61, 0x80, 0xEC, 0x11, 0xEC, 0x11, 0xEC, 0x11, 0xEC, 0x11, 0xEC, 0x11}
	want := []byte{0xA5, 0x24, 0xD4, 0xC1, 0xED, 0x36, 0xC7, 0x87, 0x2C, 0x55}
	got := vpQRRS(data, 10)
	for i := range want {
		if got[i] != want[i] {
			t.Errorf("RS anchor: got %x want %x", got, want)
			break
		}
	}
	v, cw, ok := vpQREncodeRef([]byte("01234567"), 1, 1)
	if !ok || v != 1 || len(cw) != 26 {
		t.Errorf("Annex I example: v=%d ok=%v len=%d", v, ok, len(cw))
	} else {
		for i := range data {
			if cw[i] != data[i] {
				t.Errorf("Annex I data codewords: got %x want %x", cw[:16], data)
				break
			}
		}
	}
}

func TestVPOracleAgainstEncoder(t *testing.T) {
	modes := []struct {
		ind int
		enc Encoding
	}{{1, Numeric}, {2, AlphaNumeric}, {4, Unicode}}
	levels := []ErrorCorrectionLevel{L, M, Q, H}
	r := &vpTestRand{s: 20260927}

	symbols := 0
	versionsSeen := map[int]int{}
	masksSeen := map[int]int{}
	perMode := map[int]int{}
	perLevel := map[int]int{}
	var perVersionLevel [41][4]int
	failures := 0

	check := func(content []byte, level int, modeIdx int) {
		if failures > 25 {
			return
		}
		mode := modes[modeIdx]
		tag := func() string {
			return "mode " + mode.enc.String() + " level " + levels[level].String()
		}
		bc, err := Encode(string(content), levels[level], mode.enc)
		version, cw, ok := vpQREncodeRef(content, level, mode.ind)
		if (err == nil) != ok {
			failures++
			t.Errorf("%s len %d: library err=%v, oracle ok=%v (oracle version %d)", tag(), len(content), err, ok, version)
			return
		}
		if !ok {
			return
		}
		dim := bc.Bounds().Dx()
		if bc.Bounds().Dy() != dim || bc.Bounds().Min.X != 0 || bc.Bounds().Min.Y != 0 {
			failures++
			t.Errorf("%s len %d: bounds %v", tag(), len(content), bc.Bounds())
			return
		}
		if dim != vpQRDim(version) {
			failures++
			t.Errorf("%s len %d: library dimension %d (version %d), oracle version %d", tag(), len(content), dim, (dim-17)/4, version)
			return
		}
		// read format information (first copy) from the image
		f := 0
		get := func(x, y int) int { return vpB2I(vpTestIsDark(bc.At(x, y))) }
		for k := 0; k <= 5; k++ {
			f |= get(8, k) << uint(k)
		}
		f |= get(8, 7) << 6
		f |= get(8, 8) << 7
		f |= get(7, 8) << 8
		for k := 9; k <= 14; k++ {
			f |= get(14-k, 8) << uint(k)
		}
		mask, flevel := -1, -1
		for l := 0; l < 4; l++ {
			for m := 0; m < 8; m++ {
				if vpQRFormatBits(l, m) == f {
					flevel, mask = l, m
				}
			}
		}
		if mask < 0 {
			failures++
			t.Errorf("%s len %d v%d: format word %#x is not a valid format information word", tag(), len(content), version, f)
			return
		}
		if flevel != level {
			failures++
			t.Errorf("%s len %d v%d: format word says level %d", tag(), len(content), version, flevel)
			return
		}
		want := vpQRMatrix(version, level, mask, cw)
		bad := 0
		firstX, firstY := -1, -1
		for x := 0; x < dim; x++ {
			for y := 0; y < dim; y++ {
				if vpTestIsDark(bc.At(x, y)) != want[x][y] {
					if bad == 0 {
						firstX, firstY = x, y
					}
					bad++
				}
			}
		}
		if bad > 0 {
			failures++
			t.Errorf("%s len %d v%d mask %d: %d modules differ, first at x=%d y=%d", tag(), len(content), version, mask, bad, firstX, firstY)
			return
		}

		// self-consistency of the oracle's parser / padding checker on the
		// de-interleaved data codewords
		nData := vpQRDataCodewords(version, level)
		_, b1, d1, b2, d2 := vpQRBlockSpec(version, level)
		nb := b1 + b2
		data := make([]byte, nData)
		pos := 0
		maxD := d1
		if b2 > 0 {
			maxD = d2
		}
		for i := 0; i < maxD; i++ {
			for b := 0; b < nb; b++ {
				blen, boff := d1, b*d1
				if b >= b1 {
					blen, boff = d2, b1*d1+(b-b1)*d2
				}
				if i < blen {
					data[boff+i] = cw[pos]
					pos++
				}
			}
		}
		bits := make([]bool, nData*8)
		for i := range bits {
			bits[i] = (data[i/8]>>uint(7-i%8))&1 == 1
		}
		pm, pc, payload, pok := vpQRParse(bits, version)
		if !pok || pm != mode.ind || pc != len(content) || len(payload) != len(content) {
			failures++
			t.Errorf("%s len %d v%d: parse mode=%d count=%d ok=%v", tag(), len(content), version, pm, pc, pok)
			return
		}
		for i := range content {
			w := int(content[i])
			if mode.ind == 1 {
				w = int(content[i] - '0')
			}
			if mode.ind == 2 {
				w = vpQRAlnumValue(content[i])
			}
			if payload[i] != w {
				failures++
				t.Errorf("%s len %d v%d: payload[%d]=%d want %d", tag(), len(content), version, i, payload[i], w)
				return
			}
		}
		used := vpQRSegmentBits(version, mode.ind, len(content))
		if !vpQRPaddingOK(bits, used, nData) {
			failures++
			t.Errorf("%s len %d v%d: padding check failed on oracle output", tag(), len(content), version)
			return
		}
		// padding checker must reject any single flipped bit after the segment
		if used < len(bits) {
			p := used + r.next()%(len(bits)-used)
			bits[p] = !bits[p]
			if vpQRPaddingOK(bits, used, nData) {
				failures++
				t.Errorf("%s len %d v%d: padding check accepts flipped bit %d", tag(), len(content), version, p)
			}
			bits[p] = !bits[p]
		}

		symbols++
		versionsSeen[version]++
		masksSeen[mask]++
		perMode[mode.ind]++
		perLevel[level]++
		perVersionLevel[version][level]++
	}

	// 1. capacity boundaries of every version: max count, max+1 (next version), one in between
	for mi := range modes {
		for level := 0; level < 4; level++ {
			prevMax := -1
			for v := 1; v <= 40; v++ {
				mx := vpTestMaxCount(v, level, modes[mi].ind)
				if mx < 0 {
					continue
				}
				if mx <= prevMax {
					// character count indicator growth can make a version hold no more than its predecessor
					prevMax = mx
					continue
				}
				lens := []int{mx}
				if prevMax+1 < mx {
					lens = append(lens, prevMax+1)
				}
				if prevMax+2 < mx {
					lens = append(lens, prevMax+1+r.next()%(mx-prevMax-1))
				}
				for _, n := range lens {
					check(vpTestContent(r, modes[mi].ind, n), level, mi)
				}
				prevMax = mx
			}
			// one past the largest symbol: both must refuse
			check(vpTestContent(r, modes[mi].ind, prevMax+1), level, mi)
		}
	}
	// 2. short contents incl. empty and every small length
	for mi := range modes {
		for level := 0; level < 4; level++ {
			for n := 0; n <= 60; n++ {
				check(vpTestContent(r, modes[mi].ind, n), level, mi)
			}
		}
	}
	// 3. random lengths
	for k := 0; k < 600; k++ {
		mi := r.next() % 3
		level := r.next() % 4
		check(vpTestContent(r, modes[mi].ind, r.next()%1500), level, mi)
	}
	// 4. degenerate contents (all zero digits / all same char) to hit other masks
	for mi := range modes {
		for level := 0; level < 4; level++ {
			for _, n := range []int{1, 17, 100, 333, 1000} {
				c := make([]byte, n)
				for i := range c {
					c[i] = "0A\x00"[mi]
				}
				check(c, level, mi)
				for i := range c {
					c[i] = "9:\xff"[mi]
				}
				check(c, level, mi)
			}
		}
	}

	t.Logf("symbols compared: %d", symbols)
	t.Logf("per mode (1 num, 2 alnum, 4 byte): %v", perMode)
	t.Logf("per level: %v", perLevel)
	t.Logf("masks seen: %v", masksSeen)
	missing := []int{}
	for v := 1; v <= 40; v++ {
		if versionsSeen[v] == 0 {
			missing = append(missing, v)
		}
	}
	t.Logf("versions seen: %v; missing: %v", versionsSeen, missing)
	if len(missing) > 0 {
		t.Errorf("versions not covered: %v", missing)
	}
	rows := 0
	for v := 1; v <= 40; v++ {
		for l := 0; l < 4; l++ {
			if perVersionLevel[v][l] > 0 {
				rows++
			} else {
				t.Errorf("version %d level %d not covered", v, l)
			}
		}
	}
	t.Logf("(version, level) rows covered: %d of 160", rows)
}
