#!/bin/sh
# development aid: run every obligation family once at the thorough tier (no evidence written), to learn
# which thorough bounds run clean and how long they take.  usage: thorough-sweep.sh <logdir> [prefix...]
LOG=${1:-/tmp/thorough}; shift
mkdir -p $LOG
cd /verif
# groups of obligation-id prefixes, each with a property it is reported under
for g in "C18 BL-" "C09 SCALE-" "C06 EAN" "C08 CODABAR" "C08 TOF" "C07 C39" "C07 C93" "C05 C128-" "C15 MAPORDER-" "C15 PURE-" "C15 REPEAT-" "C15 RSLOCK-" \
  "C17 GF-tables" "C17 GF-mul-" "C17 GF-mulsym" "C17 GF-inv" "C17 GF-div" "C17 RS-" "C17 POLY-" \
  "C01 QR-S" "C01 QR-A" "C01 QR-cap" "C01 QR-B" "C01 QR-C" "C01 QR-E" \
  "C02 DM-sizes" "C02 DM-A" "C02 DM-pad" "C02 DM-B" "C02 DM-C" "C02 DM-E" \
  "C04 PDF-table" "C04 PDF-A-text" "C04 PDF-A-hl" "C04 PDF-B" "C04 PDF-C" "C04 PDF-D" "C04 PDF-level" \
  "C03 AZ-A" "C03 AZ-B" "C03 AZ-D-mode" "C03 AZ-D-check" "C03 AZ-E" "C03 AZ-C" "C03 AZ-F" "C13 AZ-min"; do
  set -- $g
  f=$LOG/$2.log
  [ -s "$f" ] && continue
  start=$(date +%s)
  timeout 600 ./bin/vpcheck check -prop $1 -tier thorough -only $2 -no-evidence -v > $f 2>&1
  echo "$2 rc=$? $(( $(date +%s) - start )) s $(grep -c '^INCONCLUSIVE' $f) inconclusive $(grep -c '^VIOLATION' $f) violations" >> $LOG/SUMMARY.txt
done
echo done >> $LOG/SUMMARY.txt
