package spec

import "vpengine/exec"

func init() {
	oracle := "reference model harness/datamatrix/oracle_dm.go written from ISO/IEC 16022 (size table, ASCII encodation decoder, 253-state padding, RS over GF(256)/0x12D, block interleave, Annex F placement, finder/clock track), validated natively against 762 library symbols of all 24 sizes"
	rsStub := "(*ReedSolomonEncoder).Encode replaced by the reference remainder (assume side); guarantee side: RS-enc-dm obligations of C17"
	rs := func(in *exec.Instance, tier string) {
		in.Redirect = map[string]string{rsEncode: "utils:VPRSEncodeSummary"}
	}
	reg(&Oblig{ID: "DM-sizes", Pkg: "datamatrix", Func: "VP_DM_sizes", Props: []string{"C02", "C12"}, Desc: "the size table equals the 24 square ECC 200 symbols of ISO/IEC 16022 (data / error codewords, regions, blocks)",
		Real: []string{"datamatrix.codeSizes", "(*dmCodeSize).DataCodewords/RegionRows/RegionColumns"}, Stubs: []string{oracle}, Bound: "all 24 rows (concrete)"})
	reg(&Oblig{ID: "DM-A", Pkg: "datamatrix", Func: "VP_DM_text", Props: []string{"C02", "C10", "C13"}, Desc: "ASCII encodation of n symbolic bytes decodes (characters, digit pairs, upper shift) to exactly the bytes",
		Real: []string{"datamatrix.encodeText"}, Stubs: []string{oracle}, Bound: "n <= 4 fully symbolic bytes quick, n <= 6 thorough",
		Configs: tiered(one("n", 0, 1, 2, 3, 4), one("n", 0, 1, 2, 3, 4, 5, 6))})
	reg(&Oblig{ID: "DM-pad", Pkg: "datamatrix", Func: "VP_DM_pad", Props: []string{"C02"}, Desc: "addPadding: 129 then 253-state randomised pads at their 1-based positions, for every data length below the capacity",
		Real: []string{"datamatrix.addPadding"}, Stubs: []string{oracle}, Bound: "capacities of the sizes up to 26x26 and 52x52 quick; all 24 capacities thorough (concrete data, every length 0..capacity)",
		Configs: tiered(one("cap", 3, 5, 8, 12, 18, 22, 30, 36, 44, 204), one("cap", 3, 5, 8, 12, 18, 22, 30, 36, 44, 62, 86, 114, 144, 174, 204, 280, 368, 456, 576, 696, 816, 1050, 1304, 1558))})
	reg(&Oblig{ID: "DM-B", Pkg: "datamatrix", Func: "VP_DM_ecc", Props: []string{"C02", "C12"}, Desc: "calcECC for symbolic data codewords: data kept, check codewords of block b interleaved at data+b+k*blocks, each block a Reed-Solomon codeword, ECC 200 count",
		Real: []string{"(*datamatrix.errorCorrection).calcECC", "(*dmCodeSize).DataCodewordsForBlock", "(*dmCodeSize).ErrorCorrectionCodewordsPerBlock"}, Stubs: []string{oracle, rsStub},
		Bound: "all data codewords symbolic for sizes 10..26, 32, 52 (2 blocks), 72 (4 blocks) quick, more sizes up to 88 thorough; sizes 96, 120, 132 and 144x144 (10 blocks, 156/155 split) with every 101st (thorough also 37th) data codeword symbolic and the others fixed",
		Configs: func(tier string, seed int64) []map[string]int {
			var out []map[string]int
			for _, sz := range []int{0, 1, 2, 3, 4, 5, 6, 7, 8, 9, 14, 16} {
				out = append(out, map[string]int{"size": sz, "stride": 1})
			}
			// the big multi-block sizes (incl. 144x144 with its 156/155 split) with a sparse symbolic set
			for _, sz := range []int{19, 21, 22, 23} {
				out = append(out, map[string]int{"size": sz, "stride": 101})
			}
			// 144x144 once more with a single symbolic codeword: a wrong block then shows as a concrete
			// mismatch instead of a satisfiable query over a very large term
			out = append(out, map[string]int{"size": 23, "stride": 2000})
			if tier == "thorough" {
				for _, sz := range []int{10, 11, 12, 13, 15, 17, 18} {
					out = append(out, map[string]int{"size": sz, "stride": 1})
				}
				out = append(out, map[string]int{"size": 20, "stride": 101}, map[string]int{"size": 23, "stride": 37})
			}
			return out
		}, Tune: rs})
	reg(&Oblig{ID: "DM-C", Pkg: "datamatrix", Func: "VP_DM_render", Props: []string{"C02", "C11"}, Desc: "render for symbolic codewords: every module equals the ISO layout (finder L and clock track per region, Annex F placement incl. corner cases, fixed lower-right pattern); pixel colours; bounds",
		Real: []string{"datamatrix.render", "datamatrix.newCodeLayout", "(*codeLayout).SetValues/SetSimple/Corner1..4/Set/Occupied/Merge", "(*datamatrixCode).get/set/At/Bounds"}, Stubs: []string{oracle},
		Bound: "all codewords symbolic, all 24 sizes in both tiers", Configs: func(string, int64) []map[string]int { return one("size", rng(0, 23)...) }})
	reg(&Oblig{ID: "DM-E", Pkg: "datamatrix", Func: "VP_DM_e2e", Props: []string{"C02", "C10", "C13"}, Desc: "Encode / EncodeWithColor end to end: error exactly beyond 1558 codewords; smallest size holding the encodation; every module equals the reference pipeline (padding, interleaved RS, placement); Content, metadata, colour scheme",
		Real: []string{"datamatrix.Encode", "datamatrix.EncodeWithColor", "all of DM-A..C"}, Stubs: []string{oracle, rsStub, "the ASCII encodation inside this obligation is the library's own (discharged against the reference decoder by DM-A)"},
		Bound: "n <= 3 fully symbolic bytes; class-constrained content (letters = 1 codeword/byte, high bytes = 2) at capacity and capacity+1 of sizes 10, 12, 26 (quick), of all sizes up to 52 and 144 (thorough); 1559 letters rejected",
		Configs: func(tier string, seed int64) []map[string]int {
			var out []map[string]int
			for n := 0; n <= 3; n++ {
				out = append(out, map[string]int{"n": n, "class": 0, "color": n % 2})
			}
			caps := []int{3, 5, 44}
			if tier == "thorough" {
				caps = []int{3, 5, 8, 12, 18, 22, 30, 36, 44, 62, 86, 114, 144, 174, 204, 1558}
			}
			for i, c := range caps {
				out = append(out, map[string]int{"n": c, "class": 1, "color": i % 2}, map[string]int{"n": c + 1, "class": 1, "color": (i + 1) % 2})
				if c%2 == 0 && c <= 204 {
					out = append(out, map[string]int{"n": c / 2, "class": 2, "color": i % 2}, map[string]int{"n": c/2 + 1, "class": 2, "color": i % 2})
				}
			}
			out = append(out, map[string]int{"n": 1559, "class": 1, "color": 0})
			return out
		}, Tune: rs})
}
