package aztec

// Independent reference model of ISO/IEC 24778 (Aztec Code).
//
// Nothing in this file is taken from the package under test: geometry, the
// placement rules, the Reed-Solomon generator polynomials and the character
// set are derived from the rules of the standard.
//
// Conventions: a symbol is a [][]bool indexed [x][y] (x = column, y = row,
// origin top-left), true = dark module. Bit sequences are []bool, most
// significant bit of every word / code first.
//
// Symbolic use: vpAzSize, vpAzWordSize, vpAzTotalBits, vpAzMatrix,
// vpAzModeMessage, vpAzRS and vpAzMulConst keep all structure concrete (it
// depends on compact/layers/lengths only) and never branch on the contents of
// their bit / word arguments. vpAzStuff, vpAzUnstuff, vpAzDecode and vpAzRead
// are data dependent by nature and are meant for native validation (vpAzDecode
// is usable symbolically on short inputs: it forks on every code).

// ---------------------------------------------------------------------------
// 1. Geometry

// vpAzSize is the number of modules per side. Compact symbols: 11x11 core
// (bullseye with mode ring) plus two modules per side per layer. Full symbols:
// 15x15 core; the base size 14+4*layers counts everything but the reference
// grid lines, one central grid line plus one on both sides for every 15 data
// modules beyond the centre is added.
func vpAzSize(compact bool, layers int) int {
	if compact {
		return 11 + 4*layers
	}
	base := 14 + 4*layers
	return base + 1 + 2*((base/2-1)/15)
}

// vpAzWordSize is the codeword size in bits of the data message.
func vpAzWordSize(layers int) int {
	if layers <= 2 {
		return 6
	}
	if layers <= 8 {
		return 8
	}
	if layers <= 22 {
		return 10
	}
	return 12
}

// vpAzTotalBits is the number of data modules of the symbol. Layer l (l = 1
// innermost) consists of four 2-module-wide sides of 4*l+9 (compact) resp.
// 4*l+12 (full) dominoes.
func vpAzTotalBits(compact bool, layers int) int {
	if compact {
		return (88 + 16*layers) * layers
	}
	return (112 + 16*layers) * layers
}

// vpAzPoly is the primitive polynomial of the field used for a word size
// (word size 4 is the mode message).
func vpAzPoly(wordSize int) int {
	if wordSize == 4 {
		return 0x13 // x^4+x+1
	}
	if wordSize == 6 {
		return 0x43 // x^6+x+1
	}
	if wordSize == 8 {
		return 0x12D // x^8+x^5+x^3+x^2+1
	}
	if wordSize == 10 {
		return 0x409 // x^10+x^3+1
	}
	return 0x1069 // x^12+x^6+x^5+x^3+1
}

func vpAzAbs(a int) int {
	if a < 0 {
		return -a
	}
	return a
}

func vpAzB2I(b bool) int {
	if b {
		return 1
	}
	return 0
}

// vpAzCoreRadius is the Chebyshev distance from the centre of the ring that
// carries the mode message and the orientation marks.
func vpAzCoreRadius(compact bool) int {
	if compact {
		return 5
	}
	return 7
}

// vpAzOnGrid: coordinate offset d (relative to the centre) lies on a reference
// grid line (full symbols only): every 16 modules from the centre.
func vpAzOnGrid(compact bool, d int) bool {
	return !compact && d%16 == 0
}

// Module kinds returned by vpAzPattern.
const (
	vpAzKindData = 0
	vpAzKindFunc = 1
	vpAzKindMode = 2
)

// vpAzPattern classifies every module from (compact, layers) alone and gives
// the colour of the function modules (false for the others).
//
//   - bullseye: concentric square rings around the centre, ring at distance d
//     dark iff d is even, d < r (r = 5 compact, 7 full);
//   - ring r: corners and their neighbours are the orientation marks: top-left
//     three dark modules, top-right two (corner and the one below), bottom-right
//     one (the one above the corner), bottom-left none; the remaining modules of
//     the ring carry the mode message, except (full) the four modules on the
//     central reference grid lines;
//   - reference grid (full): rows and columns whose offset from the centre is a
//     multiple of 16; modules alternate, dark where the offset along the line is
//     even (so that the lines are consistent with the bullseye and each other).
func vpAzPattern(compact bool, layers int) (kind [][]int, dark [][]bool) {
	size := vpAzSize(compact, layers)
	c := size / 2
	r := vpAzCoreRadius(compact)
	kind = make([][]int, size)
	dark = make([][]bool, size)
	for x := 0; x < size; x++ {
		kind[x] = make([]int, size)
		dark[x] = make([]bool, size)
		for y := 0; y < size; y++ {
			dx, dy := x-c, y-c
			ax, ay := vpAzAbs(dx), vpAzAbs(dy)
			d, e := ax, ay // d = max, e = min
			if ay > ax {
				d, e = ay, ax
			}
			onV := vpAzOnGrid(compact, dx) // on a vertical grid line
			onH := vpAzOnGrid(compact, dy)
			k := vpAzKindData
			v := false
			if d < r {
				k = vpAzKindFunc
				v = d%2 == 0
			} else if d == r {
				if e >= r-1 {
					// orientation marks
					k = vpAzKindFunc
					v = (dy == -r && (dx == -r || dx == -r+1 || dx == r)) ||
						(dx == -r && dy == -r+1) ||
						(dx == r && (dy == -r+1 || dy == r-1))
				} else if onV || onH {
					k = vpAzKindFunc
					v = (onV && dy%2 == 0) || (onH && dx%2 == 0)
				} else {
					k = vpAzKindMode
				}
			} else if onV || onH {
				k = vpAzKindFunc
				v = (onV && dy%2 == 0) || (onH && dx%2 == 0)
			}
			kind[x][y] = k
			dark[x][y] = v
		}
	}
	return kind, dark
}

// vpAzModeCoords gives the module of every mode message bit: the message runs
// clockwise around the core starting right of the top-left orientation mark;
// 7 (compact) or 10 (full) bits per side, the full version skipping the
// reference grid line in the middle of each side.
func vpAzModeCoords(compact bool, layers int) (xs, ys []int) {
	c := vpAzSize(compact, layers) / 2
	r := vpAzCoreRadius(compact)
	per := 7
	if !compact {
		per = 10
	}
	offs := make([]int, per)
	n := 0
	for o := -(r - 2); o <= r-2; o++ {
		if !vpAzOnGrid(compact, o) {
			offs[n] = o
			n++
		}
	}
	xs = make([]int, 4*per)
	ys = make([]int, 4*per)
	for i := 0; i < per; i++ {
		o := offs[i]
		// top, left to right
		xs[i], ys[i] = c+o, c-r
		// right, top to bottom
		xs[per+i], ys[per+i] = c+r, c+o
		// bottom, right to left
		xs[2*per+i], ys[2*per+i] = c-o, c+r
		// left, bottom to top
		xs[3*per+i], ys[3*per+i] = c-r, c-o
	}
	return xs, ys
}

// vpAzAxis maps a coordinate of the grid-free "base" square (11+4L resp.
// 14+4L wide) to the coordinate in the symbol: the symbol coordinates that are
// not on a reference grid line, in increasing order.
func vpAzAxis(compact bool, layers int) []int {
	size := vpAzSize(compact, layers)
	c := size / 2
	base := 0
	for x := 0; x < size; x++ {
		if !vpAzOnGrid(compact, x-c) {
			base++
		}
	}
	axis := make([]int, base)
	n := 0
	for x := 0; x < size; x++ {
		if !vpAzOnGrid(compact, x-c) {
			axis[n] = x
			n++
		}
	}
	return axis
}

// vpAzDataCoords gives the module of every bit of the data message (length
// vpAzTotalBits). The message starts in the outermost layer at the top-left
// corner of the symbol and proceeds counter-clockwise (down the left side,
// along the bottom, up the right side, back along the top), then continues
// with the next layer inwards. Every side is a sequence of 2-module dominoes
// across the layer, the first bit of a domino on the outside; a side starts in
// its corner and stops two modules short of the next corner, which belongs to
// the next side. Successive sides are 90 degree rotations of the first one.
func vpAzDataCoords(compact bool, layers int) (xs, ys []int) {
	axis := vpAzAxis(compact, layers)
	base := len(axis)
	total := vpAzTotalBits(compact, layers)
	xs = make([]int, total)
	ys = make([]int, total)
	n := 0
	for l := 0; l < layers; l++ {
		low := 2 * l
		side := base - 4*l // outer width of this layer
		dominoes := side - 2
		for s := 0; s < 4; s++ {
			for j := 0; j < dominoes; j++ {
				for k := 0; k < 2; k++ {
					// first side: left column, downwards, outside first
					bx, by := low+k, low+j
					// rotate s times a quarter turn about the centre of the
					// base square (left -> bottom -> right -> top)
					for q := 0; q < s; q++ {
						bx, by = by, base-1-bx
					}
					xs[n] = axis[bx]
					ys[n] = axis[by]
					n++
				}
			}
		}
	}
	return xs, ys
}

// ---------------------------------------------------------------------------
// 2. Complete symbol

// vpAzMatrix builds the symbol from the mode message bits (28 / 40) and the
// complete data message (vpAzTotalBits bits: start padding, data words, check
// words). The bits are only copied, never inspected.
func vpAzMatrix(compact bool, layers int, modeMsg []bool, dataBits []bool) [][]bool {
	_, m := vpAzPattern(compact, layers)
	mx, my := vpAzModeCoords(compact, layers)
	for i := 0; i < len(mx); i++ {
		m[mx[i]][my[i]] = modeMsg[i]
	}
	dx, dy := vpAzDataCoords(compact, layers)
	for i := 0; i < len(dx); i++ {
		m[dx[i]][dy[i]] = dataBits[i]
	}
	return m
}

// ---------------------------------------------------------------------------
// 3./4. Reed-Solomon

// vpAzMulConst multiplies a (possibly symbolic) by the constant c in
// GF(2^m) = GF(2)[x]/(pp), branch-free.
func vpAzMulConst(a, c, m, pp int) int {
	r := 0
	for i := 0; i < m; i++ {
		r ^= (a << uint(i)) * ((c >> uint(i)) & 1)
	}
	for i := 2*m - 2; i >= m; i-- {
		r ^= (pp << uint(i-m)) * ((r >> uint(i)) & 1)
	}
	return r
}

// vpAzGenPoly returns the coefficients g[0..n] (g[i] of x^i, g[n] = 1) of
// (x - alpha^1)(x - alpha^2)...(x - alpha^n) over GF(2^m), alpha = x.
func vpAzGenPoly(wordSize, n int) []int {
	pp := vpAzPoly(wordSize)
	g := make([]int, n+1)
	g[0] = 1
	root := 1
	for d := 1; d <= n; d++ {
		root = vpAzMulConst(root, 2, wordSize, pp) // alpha^d
		// g := g * (x + root), g has degree d-1 so far
		for i := d; i >= 1; i-- {
			g[i] = g[i-1] ^ vpAzMulConst(g[i], root, wordSize, pp)
		}
		g[0] = vpAzMulConst(g[0], root, wordSize, pp)
	}
	return g
}

// vpAzRS returns the ecLen check words of the message: the remainder of
// words(x)*x^ecLen modulo the generator polynomial (first word = highest
// power), computed by a division LFSR with one step per message word.
func vpAzRS(words []int, wordSize int, ecLen int) []int {
	pp := vpAzPoly(wordSize)
	g := vpAzGenPoly(wordSize, ecLen)
	reg := make([]int, ecLen)
	if ecLen == 0 {
		return reg
	}
	for i := 0; i < len(words); i++ {
		fb := words[i] ^ reg[0]
		for j := 0; j < ecLen-1; j++ {
			reg[j] = reg[j+1] ^ vpAzMulConst(fb, g[ecLen-1-j], wordSize, pp)
		}
		reg[ecLen-1] = vpAzMulConst(fb, g[0], wordSize, pp)
	}
	return reg
}

// vpAzBitsOfWords writes words MSB first.
func vpAzBitsOfWords(words []int, wordSize int) []bool {
	out := make([]bool, len(words)*wordSize)
	for i := 0; i < len(words); i++ {
		for j := 0; j < wordSize; j++ {
			out[i*wordSize+j] = (words[i]>>uint(wordSize-1-j))&1 == 1
		}
	}
	return out
}

// vpAzWordsOfBits reads n words MSB first starting at bit offset off.
func vpAzWordsOfBits(bits []bool, off, wordSize, n int) []int {
	out := make([]int, n)
	for i := 0; i < n; i++ {
		v := 0
		for j := 0; j < wordSize; j++ {
			v = v<<1 | vpAzB2I(bits[off+i*wordSize+j])
		}
		out[i] = v
	}
	return out
}

// vpAzModeMessage: compact symbols 2 bits layers-1 and 6 bits dataWords-1 (two
// 4-bit words) followed by 5 check words; full symbols 5 bits layers-1 and 11
// bits dataWords-1 (four words) followed by 6 check words; GF(16).
func vpAzModeMessage(compact bool, layers int, dataWords int) []bool {
	var v, nData, nCheck int
	if compact {
		v = ((layers-1)&3)<<6 | ((dataWords - 1) & 63)
		nData, nCheck = 2, 5
	} else {
		v = ((layers-1)&31)<<11 | ((dataWords - 1) & 2047)
		nData, nCheck = 4, 6
	}
	words := make([]int, nData+nCheck)
	for i := 0; i < nData; i++ {
		words[i] = (v >> uint(4*(nData-1-i))) & 15
	}
	check := vpAzRS(words[:nData], 4, nCheck)
	for i := 0; i < nCheck; i++ {
		words[nData+i] = check[i]
	}
	return vpAzBitsOfWords(words, 4)
}

// vpAzMessage assembles the complete data message of a symbol from the
// (already stuffed) data words: start padding of zero bits so that the words
// end at the end of the symbol, the data words, and Reed-Solomon check words
// filling all remaining words.
func vpAzMessage(compact bool, layers int, dataWords []int) []bool {
	ws := vpAzWordSize(layers)
	total := vpAzTotalBits(compact, layers)
	pad := total % ws
	nWords := total / ws
	check := vpAzRS(dataWords, ws, nWords-len(dataWords))
	out := make([]bool, total)
	db := vpAzBitsOfWords(dataWords, ws)
	cb := vpAzBitsOfWords(check, ws)
	for i := 0; i < len(db); i++ {
		out[pad+i] = db[i]
	}
	for i := 0; i < len(cb); i++ {
		out[pad+len(db)+i] = cb[i]
	}
	return out
}

// ---------------------------------------------------------------------------
// 5. Bit stuffing (native use)

// vpAzStuff splits the bit stream into words of wordSize bits. Whenever the
// first wordSize-1 bits of a word are all zero a one is inserted as last bit,
// whenever they are all one a zero is inserted (the displaced data bit starts
// the next word). The final partial word is padded with ones first (and then
// follows the same rule, so a final word of all ones ends in a zero).
func vpAzStuff(bits []bool, wordSize int) []bool {
	n := len(bits)
	out := make([]bool, 0, n+n/(wordSize-1)+2*wordSize)
	pos := 0
	for pos < n {
		ones, zeros := 0, 0
		for j := 0; j < wordSize-1; j++ {
			b := true // padding
			if pos+j < n {
				b = bits[pos+j]
			}
			out = append(out, b)
			if b {
				ones++
			} else {
				zeros++
			}
		}
		pos += wordSize - 1
		if ones == wordSize-1 {
			out = append(out, false)
		} else if zeros == wordSize-1 {
			out = append(out, true)
		} else {
			b := true
			if pos < n {
				b = bits[pos]
			}
			out = append(out, b)
			pos++
		}
	}
	return out
}

// vpAzUnstuff removes the stuffed bits from a sequence of complete words: the
// last bit of every word whose first wordSize-1 bits are equal is dropped.
// (Trailing pad ones of the final word stay; the decoder ignores them.)
func vpAzUnstuff(bits []bool, wordSize int) []bool {
	out := make([]bool, 0, len(bits))
	for w := 0; w+wordSize <= len(bits); w += wordSize {
		ones := 0
		for j := 0; j < wordSize-1; j++ {
			out = append(out, bits[w+j])
			ones += vpAzB2I(bits[w+j])
		}
		if ones != 0 && ones != wordSize-1 {
			out = append(out, bits[w+wordSize-1])
		}
	}
	return out
}

// ---------------------------------------------------------------------------
// 6. High level decoding

// Modes.
const (
	vpAzUpper = 0
	vpAzLower = 1
	vpAzMixed = 2
	vpAzPunct = 3
	vpAzDigit = 4
)

// Kinds of code table entries; an entry is kind<<16 | a<<8 | b.
const (
	vpAzChar   = 0 // one byte a
	vpAzPair   = 1 // two bytes a, b
	vpAzLatch  = 2 // latch to mode a
	vpAzShift  = 3 // shift to mode a for one code
	vpAzBinary = 4 // binary shift
	vpAzFlg    = 5 // FLG(n)
)

func vpAzEntry(kind, a, b int) int { return kind<<16 | a<<8 | b }

// vpAzCharTable builds the five code sets of ISO/IEC 24778 Table "Character
// set" as one flat table indexed mode*32+code. Digit has 16 codes (4 bits),
// the others 32 (5 bits).
func vpAzCharTable() []int {
	t := make([]int, 5*32)
	// Upper
	t[vpAzUpper*32+0] = vpAzEntry(vpAzShift, vpAzPunct, 0)
	t[vpAzUpper*32+1] = vpAzEntry(vpAzChar, ' ', 0)
	for i := 0; i < 26; i++ {
		t[vpAzUpper*32+2+i] = vpAzEntry(vpAzChar, 'A'+i, 0)
	}
	t[vpAzUpper*32+28] = vpAzEntry(vpAzLatch, vpAzLower, 0)
	t[vpAzUpper*32+29] = vpAzEntry(vpAzLatch, vpAzMixed, 0)
	t[vpAzUpper*32+30] = vpAzEntry(vpAzLatch, vpAzDigit, 0)
	t[vpAzUpper*32+31] = vpAzEntry(vpAzBinary, 0, 0)
	// Lower
	t[vpAzLower*32+0] = vpAzEntry(vpAzShift, vpAzPunct, 0)
	t[vpAzLower*32+1] = vpAzEntry(vpAzChar, ' ', 0)
	for i := 0; i < 26; i++ {
		t[vpAzLower*32+2+i] = vpAzEntry(vpAzChar, 'a'+i, 0)
	}
	t[vpAzLower*32+28] = vpAzEntry(vpAzShift, vpAzUpper, 0)
	t[vpAzLower*32+29] = vpAzEntry(vpAzLatch, vpAzMixed, 0)
	t[vpAzLower*32+30] = vpAzEntry(vpAzLatch, vpAzDigit, 0)
	t[vpAzLower*32+31] = vpAzEntry(vpAzBinary, 0, 0)
	// Mixed: control characters ^A..^M, ESC FS GS RS US, then @ \ ^ _ ` | ~ DEL
	t[vpAzMixed*32+0] = vpAzEntry(vpAzShift, vpAzPunct, 0)
	t[vpAzMixed*32+1] = vpAzEntry(vpAzChar, ' ', 0)
	for i := 1; i <= 13; i++ {
		t[vpAzMixed*32+1+i] = vpAzEntry(vpAzChar, i, 0)
	}
	for i := 0; i < 5; i++ {
		t[vpAzMixed*32+15+i] = vpAzEntry(vpAzChar, 27+i, 0)
	}
	mixedTail := [8]int{'@', '\\', '^', '_', '`', '|', '~', 127}
	for i := 0; i < 8; i++ {
		t[vpAzMixed*32+20+i] = vpAzEntry(vpAzChar, mixedTail[i], 0)
	}
	t[vpAzMixed*32+28] = vpAzEntry(vpAzLatch, vpAzLower, 0)
	t[vpAzMixed*32+29] = vpAzEntry(vpAzLatch, vpAzUpper, 0)
	t[vpAzMixed*32+30] = vpAzEntry(vpAzLatch, vpAzPunct, 0)
	t[vpAzMixed*32+31] = vpAzEntry(vpAzBinary, 0, 0)
	// Punct
	t[vpAzPunct*32+0] = vpAzEntry(vpAzFlg, 0, 0)
	t[vpAzPunct*32+1] = vpAzEntry(vpAzChar, '\r', 0)
	t[vpAzPunct*32+2] = vpAzEntry(vpAzPair, '\r', '\n')
	t[vpAzPunct*32+3] = vpAzEntry(vpAzPair, '.', ' ')
	t[vpAzPunct*32+4] = vpAzEntry(vpAzPair, ',', ' ')
	t[vpAzPunct*32+5] = vpAzEntry(vpAzPair, ':', ' ')
	for i := 0; i < 15; i++ { // ! " # $ % & ' ( ) * + , - . /
		t[vpAzPunct*32+6+i] = vpAzEntry(vpAzChar, '!'+i, 0)
	}
	for i := 0; i < 6; i++ { // : ; < = > ?
		t[vpAzPunct*32+21+i] = vpAzEntry(vpAzChar, ':'+i, 0)
	}
	t[vpAzPunct*32+27] = vpAzEntry(vpAzChar, '[', 0)
	t[vpAzPunct*32+28] = vpAzEntry(vpAzChar, ']', 0)
	t[vpAzPunct*32+29] = vpAzEntry(vpAzChar, '{', 0)
	t[vpAzPunct*32+30] = vpAzEntry(vpAzChar, '}', 0)
	t[vpAzPunct*32+31] = vpAzEntry(vpAzLatch, vpAzUpper, 0)
	// Digit
	t[vpAzDigit*32+0] = vpAzEntry(vpAzShift, vpAzPunct, 0)
	t[vpAzDigit*32+1] = vpAzEntry(vpAzChar, ' ', 0)
	for i := 0; i < 10; i++ {
		t[vpAzDigit*32+2+i] = vpAzEntry(vpAzChar, '0'+i, 0)
	}
	t[vpAzDigit*32+12] = vpAzEntry(vpAzChar, ',', 0)
	t[vpAzDigit*32+13] = vpAzEntry(vpAzChar, '.', 0)
	t[vpAzDigit*32+14] = vpAzEntry(vpAzLatch, vpAzUpper, 0)
	t[vpAzDigit*32+15] = vpAzEntry(vpAzShift, vpAzUpper, 0)
	return t
}

// vpAzBitsAt reads n bits MSB first.
func vpAzBitsAt(bits []bool, pos, n int) int {
	v := 0
	for i := 0; i < n; i++ {
		v = v<<1 | vpAzB2I(bits[pos+i])
	}
	return v
}

// vpAzDecode decodes an (unstuffed) high-level bit stream. Encoding starts in
// Upper mode. A shift is valid for one code (a binary shift for one byte
// string) and returns to the mode it was invoked from; as in the reference
// decoder, a shift invoked while shifted (U/S then B/S in Digit mode) returns
// to the shifted mode. An incomplete final code (padding) is ignored; a
// binary string cut short by the end of the data ends decoding. FLG(n) is
// not supported: (nil, false).
func vpAzDecode(bits []bool) ([]byte, bool) {
	out, _, ok := vpAzDecodeFrom(bits, vpAzUpper)
	return out, ok
}

// vpAzDecodeFrom is vpAzDecode started in an arbitrary latched mode; it also
// returns the mode latched at the end of the data.
func vpAzDecodeFrom(bits []bool, mode int) ([]byte, int, bool) {
	tab := vpAzCharTable()
	n := len(bits)
	out := make([]byte, 0, n/2+2)
	latch := mode // mode to return to
	cur := mode   // mode of the next code
	pos := 0
	for pos < n {
		w := 5
		if cur == vpAzDigit {
			w = 4
		}
		if n-pos < w {
			break
		}
		e := tab[cur*32+vpAzBitsAt(bits, pos, w)]
		pos += w
		kind, a, b := e>>16, (e>>8)&255, e&255
		if kind == vpAzChar {
			out = append(out, byte(a))
			cur = latch
		} else if kind == vpAzPair {
			out = append(out, byte(a), byte(b))
			cur = latch
		} else if kind == vpAzLatch {
			latch = a
			cur = a
		} else if kind == vpAzShift {
			latch = cur
			cur = a
		} else if kind == vpAzBinary {
			latch = cur
			if n-pos < 5 {
				break
			}
			length := vpAzBitsAt(bits, pos, 5)
			pos += 5
			if length == 0 {
				if n-pos < 11 {
					break
				}
				length = vpAzBitsAt(bits, pos, 11) + 31
				pos += 11
			}
			for i := 0; i < length; i++ {
				if n-pos < 8 {
					pos = n
					break
				}
				out = append(out, byte(vpAzBitsAt(bits, pos, 8)))
				pos += 8
			}
			cur = latch
		} else {
			return nil, latch, false
		}
	}
	return out, latch, true
}

// ---------------------------------------------------------------------------
// 7. Reference reader (native use)

// vpAzSyndromesZero evaluates the received polynomial (first word = highest
// power) at alpha^1..alpha^n using exponent/logarithm tables generated from
// the field polynomial, and reports whether all values are zero.
func vpAzSyndromesZero(words []int, wordSize int, n int) bool {
	pp := vpAzPoly(wordSize)
	q := 1 << uint(wordSize)
	exp := make([]int, 2*q)
	log := make([]int, q)
	v := 1
	for i := 0; i < q-1; i++ {
		exp[i] = v
		log[v] = i
		v <<= 1
		if v >= q {
			v ^= pp
		}
	}
	for i := q - 1; i < 2*q; i++ {
		exp[i] = exp[i-(q-1)]
	}
	for k := 1; k <= n; k++ {
		s := 0
		for i := 0; i < len(words); i++ {
			if s != 0 {
				s = exp[log[s]+k%(q-1)]
			}
			s ^= words[i]
		}
		if s != 0 {
			return false
		}
	}
	return true
}

// vpAzReadMode samples the mode message modules.
func vpAzReadMode(img [][]bool, compact bool, layers int) []bool {
	xs, ys := vpAzModeCoords(compact, layers)
	out := make([]bool, len(xs))
	for i := 0; i < len(xs); i++ {
		out[i] = img[xs[i]][ys[i]]
	}
	return out
}

// vpAzReadData samples the data modules in message order.
func vpAzReadData(img [][]bool, compact bool, layers int) []bool {
	xs, ys := vpAzDataCoords(compact, layers)
	out := make([]bool, len(xs))
	for i := 0; i < len(xs); i++ {
		out[i] = img[xs[i]][ys[i]]
	}
	return out
}

// vpAzFunctionOK: all function modules of the (compact, layers) symbol type
// are present in img with the right colour.
func vpAzFunctionOK(img [][]bool, compact bool, layers int) bool {
	kind, dark := vpAzPattern(compact, layers)
	for x := 0; x < len(kind); x++ {
		for y := 0; y < len(kind); y++ {
			if kind[x][y] == vpAzKindFunc && img[x][y] != dark[x][y] {
				return false
			}
		}
	}
	return true
}

// vpAzRead reads an axis-aligned, exactly sized symbol. Reason codes of a
// failed read are available from vpAzReadWhy.
func vpAzRead(img [][]bool) (payload []byte, compact bool, layers int, dataWords int, ok bool) {
	payload, compact, layers, dataWords, why := vpAzReadWhy(img)
	return payload, compact, layers, dataWords, why == 0
}

// Failure reasons of vpAzReadWhy.
const (
	vpAzOK            = 0
	vpAzErrShape      = 1 // not square / no symbol type of that size with matching function patterns
	vpAzErrModeRS     = 2 // mode message is not a Reed-Solomon codeword
	vpAzErrModeLayers = 3 // layer count of the mode message contradicts the size
	vpAzErrModeWords  = 4 // data word count of the mode message exceeds the symbol capacity
	vpAzErrDataRS     = 5 // data message is not a Reed-Solomon codeword
	vpAzErrDataWord   = 6 // a data word is all zeros or all ones
	vpAzErrDecode     = 7 // high-level decoding failed
)

func vpAzReadWhy(img [][]bool) (payload []byte, compact bool, layers int, dataWords int, why int) {
	size := len(img)
	for x := 0; x < size; x++ {
		if len(img[x]) != size {
			return nil, false, 0, 0, vpAzErrShape
		}
	}
	// Symbol type from the size; sizes 19, 23, 27 exist in both formats and
	// are told apart by the core (the function patterns must match anyway).
	found := false
	for c := 0; c < 2 && !found; c++ {
		maxLayers := 32
		if c == 0 {
			maxLayers = 4
		}
		for l := 1; l <= maxLayers && !found; l++ {
			if vpAzSize(c == 0, l) == size && vpAzFunctionOK(img, c == 0, l) {
				compact, layers, found = c == 0, l, true
			}
		}
	}
	if !found {
		return nil, false, 0, 0, vpAzErrShape
	}
	// Mode message.
	mode := vpAzReadMode(img, compact, layers)
	mw := vpAzWordsOfBits(mode, 0, 4, len(mode)/4)
	var mmLayers int
	if compact {
		if !vpAzSyndromesZero(mw, 4, 5) {
			return nil, compact, layers, 0, vpAzErrModeRS
		}
		mmLayers = vpAzBitsAt(mode, 0, 2) + 1
		dataWords = vpAzBitsAt(mode, 2, 6) + 1
	} else {
		if !vpAzSyndromesZero(mw, 4, 6) {
			return nil, compact, layers, 0, vpAzErrModeRS
		}
		mmLayers = vpAzBitsAt(mode, 0, 5) + 1
		dataWords = vpAzBitsAt(mode, 5, 11) + 1
	}
	if mmLayers != layers {
		return nil, compact, layers, dataWords, vpAzErrModeLayers
	}
	// Data message.
	ws := vpAzWordSize(layers)
	total := vpAzTotalBits(compact, layers)
	pad := total % ws
	nWords := total / ws
	if dataWords > nWords {
		return nil, compact, layers, dataWords, vpAzErrModeWords
	}
	bits := vpAzReadData(img, compact, layers)
	words := vpAzWordsOfBits(bits, pad, ws, nWords)
	if !vpAzSyndromesZero(words, ws, nWords-dataWords) {
		return nil, compact, layers, dataWords, vpAzErrDataRS
	}
	for i := 0; i < dataWords; i++ {
		if words[i] == 0 || words[i] == 1<<uint(ws)-1 {
			return nil, compact, layers, dataWords, vpAzErrDataWord
		}
	}
	raw := vpAzUnstuff(bits[pad:pad+dataWords*ws], ws)
	payload, ok := vpAzDecode(raw)
	if !ok {
		return nil, compact, layers, dataWords, vpAzErrDecode
	}
	return payload, compact, layers, dataWords, vpAzOK
}
