package term

import (
	"fmt"
	"math/bits"
)

func minS(w int) int64 {
	if w >= 64 {
		return -1 << 63
	}
	return -(int64(1) << uint(w-1))
}
func maxS(w int) int64 {
	if w >= 64 {
		return 1<<63 - 1
	}
	return int64(1)<<uint(w-1) - 1
}

func addOvS(a, c int64) (int64, bool) {
	r := a + c
	if (a >= 0 && c >= 0 && r < 0) || (a < 0 && c < 0 && r >= 0) {
		return 0, true
	}
	return r, false
}

func mulS(a, c int64) (int64, bool) {
	if a == 0 || c == 0 {
		return 0, false
	}
	neg := (a < 0) != (c < 0)
	ua, uc := uint64(a), uint64(c)
	if a < 0 {
		ua = uint64(-a)
	}
	if c < 0 {
		uc = uint64(-c)
	}
	hi, lo := bits.Mul64(ua, uc)
	if hi != 0 || lo > 1<<62 {
		return 0, true
	}
	if neg {
		return -int64(lo), false
	}
	return int64(lo), false
}

func min64(a, c int64) int64 {
	if a < c {
		return a
	}
	return c
}
func max64(a, c int64) int64 {
	if a > c {
		return a
	}
	return c
}
func minu(a, c uint64) uint64 {
	if a < c {
		return a
	}
	return c
}

// analyse fills interval and known-zero information of a freshly built BV node.
func (b *B) analyse(n *Node) {
	w := n.W
	m := mask(w)
	n.ULo, n.UHi = 0, m
	n.SLo, n.SHi = minS(w), maxS(w)
	n.KZ = 0
	a := n.Args
	switch n.Op {
	case OpConst:
		n.ULo, n.UHi = n.K, n.K
		n.SLo, n.SHi = sx(n.K, w), sx(n.K, w)
		n.KZ = ^n.K & m
		return
	case OpVar:
		if n.K2 == 1 { // ranged variable (unsigned range in K.. stored by VarRange)
			return
		}
	case OpAdd:
		x, y := a[0], a[1]
		if s, c := bits.Add64(x.UHi, y.UHi, 0); c == 0 && s <= m {
			n.ULo, n.UHi = x.ULo+y.ULo, s
		}
		lo, o1 := addOvS(x.SLo, y.SLo)
		hi, o2 := addOvS(x.SHi, y.SHi)
		if !o1 && !o2 && lo >= minS(w) && hi <= maxS(w) {
			n.SLo, n.SHi = lo, hi
		}
		// low zero bits survive
		tz := minInt(bits.TrailingZeros64(^x.KZ), bits.TrailingZeros64(^y.KZ))
		if tz > 0 {
			n.KZ |= mask(minInt(tz, w))
		}
	case OpSub:
		x, y := a[0], a[1]
		if x.ULo >= y.UHi {
			n.ULo, n.UHi = x.ULo-y.UHi, x.UHi-y.ULo
		}
		if y.SHi != minS(64) && y.SLo != minS(64) {
			lo, o1 := addOvS(x.SLo, -y.SHi)
			hi, o2 := addOvS(x.SHi, -y.SLo)
			if !o1 && !o2 && lo >= minS(w) && hi <= maxS(w) {
				n.SLo, n.SHi = lo, hi
			}
		}
	case OpMul:
		x, y := a[0], a[1]
		if hi, lo := bits.Mul64(x.UHi, y.UHi); hi == 0 && lo <= m {
			n.ULo, n.UHi = x.ULo*y.ULo, lo
		}
		p := [4]int64{}
		ov := false
		for i, pr := range [][2]int64{{x.SLo, y.SLo}, {x.SLo, y.SHi}, {x.SHi, y.SLo}, {x.SHi, y.SHi}} {
			v, o := mulS(pr[0], pr[1])
			if o {
				ov = true
			}
			p[i] = v
		}
		if !ov {
			lo := min64(min64(p[0], p[1]), min64(p[2], p[3]))
			hi := max64(max64(p[0], p[1]), max64(p[2], p[3]))
			if lo >= minS(w) && hi <= maxS(w) {
				n.SLo, n.SHi = lo, hi
			}
		}
		tz := bits.TrailingZeros64(^x.KZ) + bits.TrailingZeros64(^y.KZ)
		if tz > 0 {
			n.KZ |= mask(minInt(tz, w))
		}
	case OpUDiv:
		x, y := a[0], a[1]
		if y.ULo > 0 {
			n.ULo, n.UHi = x.ULo/y.UHi, x.UHi/y.ULo
		}
	case OpURem:
		x, y := a[0], a[1]
		if y.ULo > 0 {
			n.UHi = minu(x.UHi, y.UHi-1)
		} else {
			n.UHi = x.UHi
		}
	case OpSDiv:
		x, y := a[0], a[1]
		if y.SLo > 0 {
			c1, c2, c3, c4 := x.SLo/y.SLo, x.SLo/y.SHi, x.SHi/y.SLo, x.SHi/y.SHi
			n.SLo = min64(min64(c1, c2), min64(c3, c4))
			n.SHi = max64(max64(c1, c2), max64(c3, c4))
		}
	case OpSRem:
		x, y := a[0], a[1]
		if y.SLo > 0 {
			c := y.SHi - 1
			if x.SLo >= 0 {
				n.SLo, n.SHi = 0, min64(c, x.SHi)
			} else {
				n.SLo, n.SHi = max64(-c, x.SLo), min64(c, max64(x.SHi, 0))
			}
		}
	case OpAnd:
		n.KZ = a[0].KZ | a[1].KZ
		n.UHi = minu(a[0].UHi, a[1].UHi)
	case OpOr:
		n.KZ = a[0].KZ & a[1].KZ
		n.ULo = maxu(a[0].ULo, a[1].ULo)
	case OpXor:
		n.KZ = a[0].KZ & a[1].KZ
	case OpNot:
		n.ULo, n.UHi = m-a[0].UHi, m-a[0].ULo
	case OpNeg:
		if a[0].SLo > minS(w) {
			n.SLo, n.SHi = -a[0].SHi, -a[0].SLo
		}
	case OpShl:
		if c, ok := a[1].ConstVal(); ok && c < uint64(w) {
			n.KZ = ((a[0].KZ << c) | mask(int(c))) & m
			if bits.Len64(a[0].UHi)+int(c) <= w {
				n.ULo, n.UHi = a[0].ULo<<c, a[0].UHi<<c
			}
		} else if a[1].UHi < uint64(w) {
			// shift left by at most UHi
			if bits.Len64(a[0].UHi)+int(a[1].UHi) <= w {
				n.UHi = a[0].UHi << a[1].UHi
			}
			tz := bits.TrailingZeros64(^a[0].KZ)
			if tz > 0 {
				n.KZ |= mask(minInt(tz, w))
			}
		}
	case OpLShr:
		if c, ok := a[1].ConstVal(); ok && c < uint64(w) {
			n.KZ = ((a[0].KZ & m) >> c) | (m &^ (m >> c))
			n.ULo, n.UHi = a[0].ULo>>c, a[0].UHi>>c
		} else {
			n.UHi = a[0].UHi
		}
	case OpAShr:
		if c, ok := a[1].ConstVal(); ok && c < uint64(w) {
			n.SLo, n.SHi = a[0].SLo>>c, a[0].SHi>>c
		} else {
			n.SLo, n.SHi = min64(a[0].SLo, 0), max64(a[0].SHi, 0)
			if a[0].SLo < 0 {
				n.SHi = max64(a[0].SHi, -1)
			}
		}
	case OpExtract:
		lo := n.K2
		n.KZ = (a[0].KZ >> uint(lo)) & m
		if lo == 0 && a[0].UHi <= m {
			n.ULo, n.UHi = a[0].ULo, a[0].UHi
		}
	case OpConcat:
		lw := a[1].W
		n.KZ = (a[0].KZ<<uint(lw) | a[1].KZ) & m
		n.ULo = a[0].ULo<<uint(lw) | a[1].ULo
		n.UHi = a[0].UHi<<uint(lw) | a[1].UHi
	case OpZExt:
		n.ULo, n.UHi = a[0].ULo, a[0].UHi
		n.KZ = a[0].KZ | (m &^ mask(a[0].W))
	case OpSExt:
		n.SLo, n.SHi = a[0].SLo, a[0].SHi
	case OpIte:
		x, y := a[1], a[2]
		xlo, xhi, ylo, yhi := x.ULo, x.UHi, y.ULo, y.UHi
		xs0, xs1, ys0, ys1 := x.SLo, x.SHi, y.SLo, y.SHi
		// ite(p < k, p, p - k): the conditional subtraction produced for "p mod k" with p < 2k
		if c := a[0]; c.Op == OpUlt && c.Args[1].IsConst() && c.Args[0] == x {
			k := c.Args[1].K
			if k > 0 && xhi > k-1 {
				xhi = k - 1
				if xhi < uint64(1)<<uint(w-1) {
					xs0, xs1 = 0, int64(xhi)
				}
				if xlo > xhi {
					xlo = 0
				}
			}
			if y.Op == OpAdd && y.Args[0] == x && y.Args[1].IsConst() && y.Args[1].K == (-k)&m && x.UHi >= k {
				ylo, yhi = 0, x.UHi-k
				if x.ULo > k {
					ylo = x.ULo - k
				}
				if yhi < uint64(1)<<uint(w-1) {
					ys0, ys1 = int64(ylo), int64(yhi)
				}
			}
		}
		n.ULo, n.UHi = minu(xlo, ylo), maxu(xhi, yhi)
		n.SLo, n.SHi = min64(xs0, ys0), max64(xs1, ys1)
		n.KZ = x.KZ & y.KZ

	case OpB2V:
		n.ULo, n.UHi = 0, 1
		n.KZ = m &^ 1
	}
	b.refine(n)
}

func minInt(a, c int) int {
	if a < c {
		return a
	}
	return c
}

func (b *B) refine(n *Node) {
	w := n.W
	m := mask(w)
	n.KZ &= m
	// from known zeros
	if hi := ^n.KZ & m; n.UHi > hi {
		n.UHi = hi
	}
	half := uint64(1) << uint(w-1)
	// unsigned -> signed
	if n.UHi < half {
		n.SLo = max64(n.SLo, int64(n.ULo))
		n.SHi = min64(n.SHi, int64(n.UHi))
	} else if n.ULo >= half {
		n.SLo = max64(n.SLo, sx(n.ULo, w))
		n.SHi = min64(n.SHi, sx(n.UHi, w))
	}
	// signed -> unsigned
	if n.SLo >= 0 {
		n.ULo = maxu(n.ULo, uint64(n.SLo))
		n.UHi = minu(n.UHi, uint64(n.SHi))
	} else if n.SHi < 0 {
		n.ULo = maxu(n.ULo, uint64(n.SLo)&m)
		n.UHi = minu(n.UHi, uint64(n.SHi)&m)
	}
	// unsigned upper bound -> known zero high bits
	n.KZ |= m &^ mask(bits.Len64(n.UHi))
	if n.ULo > n.UHi || n.SLo > n.SHi {
		// contradictory (can happen on infeasible paths); fall back to something sound-ish
		n.ULo, n.UHi = 0, m
		n.SLo, n.SHi = minS(w), maxS(w)
		n.KZ = 0
	}
}

// VarRange creates (or returns) a variable whose unsigned or signed range is
// restricted; the range constraint is emitted with every query that mentions it.
func (b *B) VarRange(name string, w int, signed bool, lo, hi int64) *Node {
	if v, ok := b.varByNm[name]; ok {
		return v
	}
	n := &Node{Op: OpVar, W: w, Name: name, K2: 1}
	k := key{op: n.Op, w: n.W, name: n.Name, a0: -1, a1: -1, a2: -1}
	n.ID = b.nextID
	b.nextID++
	m := mask(w)
	n.ULo, n.UHi = 0, m
	n.SLo, n.SHi = minS(w), maxS(w)
	if signed {
		n.SLo, n.SHi = lo, hi
	} else {
		n.ULo, n.UHi = uint64(lo), uint64(hi)
	}
	b.refine(n)
	b.tab[k] = n
	b.varByNm[name] = n
	b.Vars = append(b.Vars, n)
	return n
}

// RangeConstraint returns the constraint implied by a ranged variable (or nil).
func (b *B) RangeConstraint(v *Node) *Node {
	if v.Op != OpVar || v.K2 != 1 {
		return nil
	}
	w := v.W
	// express through both views; one of them is the declared one, the other derived (sound)
	var cs []*Node
	if v.ULo != 0 || v.UHi != mask(w) {
		cs = append(cs, b.mk(&Node{Op: OpUle, W: 0, Args: []*Node{b.Const(w, v.ULo), v}}),
			b.mk(&Node{Op: OpUle, W: 0, Args: []*Node{v, b.Const(w, v.UHi)}}))
	}
	if v.SLo != minS(w) || v.SHi != maxS(w) {
		cs = append(cs, b.mk(&Node{Op: OpSle, W: 0, Args: []*Node{b.Const(w, uint64(v.SLo)), v}}),
			b.mk(&Node{Op: OpSle, W: 0, Args: []*Node{v, b.Const(w, uint64(v.SHi))}}))
	}
	if len(cs) == 0 {
		return nil
	}
	return b.mk(&Node{Op: OpBAnd, W: 0, Args: cs})
}

// VarView returns a node that denotes the same variable as v (same SMT symbol,
// same value under every model) but carries the tighter unsigned interval
// [lo, hi]. It may only be used where the path condition implies that interval.
func (b *B) VarView(v *Node, lo, hi uint64) *Node {
	k := key{op: OpVar, w: v.W, name: v.Name, k: lo, k2: 2, a0: -1, a1: -1, a2: -1, extra: fmt.Sprint(hi)}
	if n, ok := b.tab[k]; ok {
		return n
	}
	n := &Node{Op: OpVar, W: v.W, Name: v.Name, K2: 2}
	n.ID = b.nextID
	b.nextID++
	m := mask(v.W)
	n.ULo, n.UHi = lo, hi
	n.SLo, n.SHi = minS(v.W), maxS(v.W)
	_ = m
	b.refine(n)
	b.tab[k] = n
	return n
}
