package pdf417

import (
	"image"
	"image/color"

	"github.com/boombuler/barcode"
)

// C04 / C12 / C13 harnesses for PDF417. Reference model: oracle_pdf417.go.

type vpCol struct{ id int }

func (c vpCol) RGBA() (r, g, b, a uint32) { return uint32(c.id), 0, 0, 0xffff }

// the library's sub-mode constants continue the iota of the preceding block; map them to 0..3
func vpSubIndex(s subMode) int { return int(s) - int(subUpper) }

func vpIsText(c byte) bool { return c == 9 || c == 10 || c == 13 || (c >= 32 && c <= 126) }

// PDF-A text step: encodeText from each sub-mode; the reference reader started in the same sub-mode
// returns the text and ends in the sub-mode the encoder returns (the invariant that lets segments compose).
func VP_PDF_text() {
	n := vpConfig("n")
	start := subMode(int(subUpper) + vpConfig("sub"))
	raw := vpString("t", n)
	text := make([]rune, n)
	for i := 0; i < n; i++ {
		vpAssume(vpIsText(raw[i]))
		text[i] = rune(raw[i])
	}
	end, cw := encodeText(text, start)
	buf, m, endSub, ok := vpPdfDecodeTextN(cw, vpConfig("sub"))
	vpAssert(ok, "text compaction codewords are in range")
	vpAssert(m == n, "the reader sees as many characters as were encoded")
	for i := 0; i < n && i < len(buf); i++ {
		vpAssert(buf[i] == raw[i], "text compaction decodes to the text")
	}
	vpAssert(vpSubIndex(end) == endSub, "the sub-mode the encoder continues in is the one a reader is in")
	vpCover("reached", true)
}

// PDF-A whole message: highlevelEncode on symbolic bytes, decoded by the reference decoder
func VP_PDF_hl() {
	n := vpConfig("n")
	pre := vpConfig("prefix") // concrete prefixes that establish a compaction state
	prefix := ""
	switch pre {
	case 1:
		prefix = "ab1"
	case 2:
		prefix = "\x01\x02\x03\x04\x05\x06\x07"
	case 3:
		prefix = "1234567890123"
	case 4:
		prefix = "HELLO;"
	case 5:
		prefix = "1;;;;"
	case 6:
		prefix = "hello" // text run ending in the Lower sub-mode
	case 7:
		prefix = "ab12#" // ... in Mixed
	case 8:
		prefix = "Ab;;;;" // ... in Punctuation
	}
	// a concrete continuation: what the encoder remembers across the symbolic bytes (sub-mode after
	// a shifted byte, pending digits) only shows in what follows them
	suffix := ""
	switch vpConfig("suffix") {
	case 1:
		suffix = "worlds"
	case 2:
		suffix = "WORLDS"
	case 3:
		suffix = ";;;;;;"
	}
	raw := vpString("d", n)
	data := prefix + raw + suffix
	cw, err := highlevelEncode(data)
	vpAssert(err == nil, "every byte string has a high-level encoding")
	if err != nil {
		return
	}
	for i := range cw {
		vpAssert(cw[i] >= 0 && cw[i] <= 928, "codewords are in 0..928")
	}
	buf, m, ok := vpPdfDecodeN(cw)
	vpAssert(ok, "the codeword stream is well formed (latches, shifts, groups)")
	vpAssert(m == len(data), "the reader sees as many bytes as were encoded")
	for i := 0; i < len(data) && i < len(buf); i++ {
		vpAssert(buf[i] == data[i], "text/byte/numeric compaction decodes to the data byte for byte")
	}
	vpCover("reached", true)
}

// PDF-B shape: the data-word count is enumerated concretely (calcDimensions mixes floats and
// integer divisions by the loop variable; with a symbolic count the executor forks per
// candidate without finishing), every count lo..hi and the level of the configuration.
func VP_PDF_dims() {
	level := vpConfig("level")
	k := 2 << uint(level)
	for m := vpConfig("mlo"); m <= vpConfig("mhi"); m++ {
		cols, rows := calcDimensions(m, k)
		fits := m+1+k <= 4 // tiny symbols: 2x2 is the floor
		for c := 2; c <= 30; c++ {
			for r := 2; r <= 30; r++ {
				if c*r >= m+1+k && c*(r-1) < m+1+k {
					fits = true
				}
			}
		}
		inRange := cols >= 2 && cols <= 30 && rows >= 2 && rows <= 30
		if !fits {
			vpAssert(!inRange, "data that fits no shape within 2..30 x 2..30 yields an out-of-range result (an error upstream)")
			continue
		}
		vpAssert(inRange, "a shape within 2..30 x 2..30 is found whenever one exists")
		vpAssert(cols*rows >= m+1+k, "the shape holds length descriptor, data and check codewords")
		vpAssert(cols*(rows-1) < m+1+k || (rows == 2 && cols == 2), "less than one row of padding")
		pad := getPadding(m, k, cols)
		vpAssert((m+1+k+len(pad))%cols == 0 && len(pad) < cols, "padding completes the last row")
		vpAssert(vpPdfShapeOK(m, level, rows, cols) || (rows == 2 && cols == 2), "reference shape predicate")
	}
	vpCover("reached", true)
}

// PDF-C Reed-Solomon over GF(929)
func VP_PDF_rs() {
	level := vpConfig("level")
	n := vpConfig("n")
	data := make([]int, n)
	given := make([]int, n)
	for i := 0; i < n; i++ {
		data[i] = vpIntRange(vpIdx("d", i), 0, 928)
		given[i] = data[i]
	}
	ecc := securitylevel(level).Compute(data)
	want := vpPdfRS(given, level)
	vpAssert(securitylevel(level).ErrorCorrectionWordCount() == 2<<uint(level), "2^(level+1) check codewords")
	vpAssert(len(ecc) == 2<<uint(level) && len(want) == len(ecc), "number of check codewords")
	if len(ecc) == len(want) {
		for i := range ecc {
			vpAssert(ecc[i] == want[i], "check codeword i equals the remainder of data*x^k modulo prod (x - 3^i) over GF(929)")
		}
	}
	for i := 0; i < n; i++ {
		vpAssert(data[i] == given[i], "Compute does not modify its input")
	}
	vpCover("reached", true)
}

func vpIdx(p string, i int) string {
	return p + string(rune('0'+i/100)) + string(rune('0'+i/10%10)) + string(rune('0'+i%10))
}

func vpLibTable(cluster, value int) int { return codewords[cluster][value] }

// the pattern table: structural validity of all 2787 entries
func VP_PDF_table() {
	vpAssert(len(codewords) == 3, "three clusters")
	for c := 0; c < 3 && c < len(codewords); c++ {
		vpAssert(len(codewords[c]) == 929, "929 codewords per cluster")
		for v := 0; v < len(codewords[c]); v++ {
			vpAssert(vpPdfPatternOK(c, v, codewords[c][v]), "17 modules, 4 bars and 4 spaces of width 1..6, starts with a bar, cluster number 0/3/6")
		}
	}
	vpCover("reached", true)
}

// stands in for securitylevel.Compute in VP_PDF_rows (assume side; PDF-C is the guarantee side).
// It is value-preserving, so counterexamples replay natively with the real Compute.
func vpComputeStub(level securitylevel, data []int) []int {
	return vpPdfRS(data, int(level))
}

// PDF-D rows, indicators, rendering. The content is class-constrained so that its length fixes
// the number of data codewords: class 1 = upper-case letters (two per codeword), class 2 = bytes
// >= 0x80 in multiples of six (byte compaction: five codewords per six bytes, all values 0..899 reachable).
func VP_PDF_rows() {
	n := vpConfig("n")
	level := vpConfig("level")
	content := vpString("c", n)
	for i := 0; i < n; i++ {
		if vpConfig("class") == 1 {
			vpAssume(content[i] >= 'A' && content[i] <= 'Z')
		} else {
			vpAssume(content[i] >= 0x80 && content[i] <= 0xBF) // UTF-8 continuation bytes: never text, never part of a valid sequence
		}
	}
	words, herr := highlevelEncode(content) // the library's own high-level encoding (guarantee side: PDF-A)
	vpAssert(herr == nil, "high-level encoding succeeds")
	nw := len(words)
	scheme := barcode.ColorScheme{Model: color.CMYKModel, Foreground: vpCol{1}, Background: vpCol{2}}
	bc, err := EncodeWithColor(content, byte(level), scheme)
	k := 2 << uint(level)
	total := nw + 1 + k
	fits := total <= 4
	for c := 2; c <= 30; c++ {
		for r := 2; r <= 30; r++ {
			if c*r >= total && c*(r-1) < total {
				fits = true
			}
		}
	}
	if !fits {
		vpAssert(err != nil && bc == nil, "data that fits no 2..30 x 2..30 shape is rejected")
		vpCover("too-much", true)
		return
	}
	vpAssert(err == nil && bc != nil, "data that fits a shape is accepted")
	if bc == nil {
		return
	}
	code := bc.(*pdfBarcode)
	width := code.width
	vpAssert((width-1)%17 == 0 && (width-1)/17 >= 6, "width is 17 modules per codeword plus the extra stop module")
	cols := (width-1)/17 - 4
	h := bc.Bounds().Dy()
	vpAssert(bc.Bounds() == image.Rect(0, 0, width, h) && h%2 == 0, "bounds: 17*(cols+4)+1 wide, 2 pixel rows per symbol row")
	rows := h / 2
	vpAssert(vpPdfShapeOK(nw, level, rows, cols), "shape: 2..30 rows and columns, room for all codewords, less than one row of padding")
	if !vpPdfShapeOK(nw, level, rows, cols) || h%2 != 0 {
		return
	}
	all := make([]int, 0, rows*cols)
	all = append(all, rows*cols-k)
	all = append(all, words...)
	for len(all) < rows*cols-k {
		all = append(all, 900)
	}
	all = append(all, vpPdfRS(all, level)...)
	want := vpPdfMatrix(rows, cols, level, all, vpLibTable)
	for r := 0; r < rows; r++ {
		for x := 0; x < width; x++ {
			top := bc.At(x, 2*r)
			bot := bc.At(x, 2*r+1)
			vpAssert((top == scheme.Foreground) == want[r][x] && (top == scheme.Background) == !want[r][x], "module: start, left indicator, data, right indicator, stop, patterns of cluster (row mod 3); colours from the scheme")
			vpAssert(bot == top, "each symbol row is drawn two pixels high")
		}
	}
	vpAssert(bc.Content() == content, "Content is the text")
	md := bc.Metadata()
	vpAssert(md.CodeKind == "PDF417" && md.Dimensions == 2, "metadata says PDF417, 2D")
	vpAssert(bc.ColorModel() == scheme.Model, "ColorModel is the scheme's model")
	if cs, ok := bc.(barcode.BarcodeColor); ok {
		g := cs.ColorScheme()
		vpAssert(g.Model == scheme.Model && g.Foreground == scheme.Foreground && g.Background == scheme.Background, "ColorScheme() reports the scheme in force")
	} else {
		vpAssert(false, "PDF417 barcodes expose their colour scheme")
	}
	vpCover("accepted", true)
}

// security level domain
func VP_PDF_level() {
	lv := byte(vpConcretize(int(vpByte("level"))))
	bc, err := Encode("ABC", lv)
	if lv >= 9 {
		vpAssert(err != nil && bc == nil, "security levels above 8 are rejected")
	} else {
		vpAssert(err == nil && bc != nil, "security levels 0..8 are accepted")
	}
	vpCover("reached", true)
}


// C15 / C16: purity
func VP_PDF_pure() {
	n := vpConfig("n")
	content := vpString("c", n)
	for i := 0; i < n; i++ {
		vpAssume(content[i] >= 'A' && content[i] <= 'Z')
	}
	vpTrackGlobals()
	a, errA := Encode(content, 2)
	_, _ = Encode("something else 1234567890", 4)
	b, errB := Encode(content, 2)
	vpAssert((errA == nil) == (errB == nil), "the same call succeeds or fails the same way every time")
	if errA == nil && errB == nil {
		vpAssert(a.Bounds() == b.Bounds() && a.Content() == b.Content(), "the same call returns the same barcode whatever was encoded before")
		if a.Bounds() == b.Bounds() {
			for x := 0; x < a.Bounds().Dx(); x++ {
				for y := 0; y < a.Bounds().Dy(); y++ {
					vpAssert(a.At(x, y) == b.At(x, y), "the same call returns the same pixels whatever was encoded before")
				}
			}
		}
	}
	vpAssert(vpGlobalWrites() == 0, "no package-level state is written")
	vpCover("reached", true)
}
