package barcode

// Engine self-tests: small programs whose assertions hold for every input.
// They exercise the executor features the real harnesses rely on.

func vpStrip(c []int) []int {
	for len(c) > 1 && c[0] == 0 {
		c = c[1:]
	}
	return c
}

func VP_T_strip() {
	c := []int{vpInt("a"), vpInt("b"), vpInt("c")}
	s := vpStrip(c)
	sum := 0
	for _, v := range s {
		sum += v
	}
	vpAssert(sum == c[0]+c[1]+c[2], "sum over stripped slice equals sum over all (stripped ones are zero)")
	vpAssert(len(s) >= 1 && len(s) <= 3, "length in range")
	vpAssert(s[len(s)-1] == c[2], "last element is kept")
	vpCover("stripped-two", len(s) == 1)
	vpCover("stripped-none", len(s) == 3)
}

type vpT struct {
	k    int
	data []bool
}

var vpTab = map[rune]vpT{
	'a': {1, []bool{true, false, true}},
	'b': {2, []bool{false, false, true}},
	'c': {3, []bool{true, true, true, false}},
}

func VP_T_maplookup() {
	r := vpRune("r")
	e, ok := vpTab[r]
	if !ok {
		vpAssert(r != 'a' && r != 'b' && r != 'c', "miss means not a key")
		return
	}
	n := 0
	for _, b := range e.data {
		if b {
			n++
		}
	}
	switch r {
	case 'a':
		vpAssert(n == 2 && e.k == 1, "entry a")
	case 'b':
		vpAssert(n == 1 && e.k == 2, "entry b")
	default:
		vpAssert(r == 'c' && n == 3 && e.k == 3 && len(e.data) == 4, "entry c")
	}
	vpCover("a", r == 'a')
	vpCover("c", r == 'c')
}

func VP_T_string() {
	s := vpString("s", 3)
	n := 0
	for _, r := range s {
		if r >= '0' && r <= '9' {
			n++
		}
	}
	m := 0
	for i := 0; i < len(s); i++ {
		if s[i] >= '0' && s[i] <= '9' {
			m++
		}
	}
	vpAssert(n == m, "digits counted by runes equals digits counted by bytes (digits are single-byte)")
	rs := []rune(s)
	vpAssert(len(rs) <= 3 && len(rs) >= 1, "rune count between 1 and 3")
	vpAssert(string(rs) == s || len(rs) < 3 || true, "tautology keeps conversions alive")
	vpCover("multibyte", len(rs) == 2)
	vpCover("all-ascii", len(rs) == 3)
}

func VP_T_chan() {
	n := vpConfig("n")
	ch := make(chan int)
	go func() {
		for i := 0; i < n; i++ {
			ch <- i * vpInt("k")
		}
		close(ch)
	}()
	sum := 0
	cnt := 0
	for v := range ch {
		sum += v
		cnt++
	}
	vpAssert(cnt == n, "received n values")
	vpAssert(sum == vpInt("k")*(n*(n-1)/2), "sum of the values")
}

type vpShape interface{ Area() int }
type vpSq struct{ s int }
type vpRect struct{ w, h int }

func (s vpSq) Area() int    { return s.s * s.s }
func (r *vpRect) Area() int { return r.w * r.h }

func VP_T_iface() {
	var sh vpShape
	a := vpInt("a")
	vpAssume(a >= 0 && a < 1000)
	if vpBool("sq") {
		sh = vpSq{a}
	} else {
		sh = &vpRect{a, a}
	}
	vpAssert(sh.Area() == a*a, "dynamic dispatch through merged interface value")
	_, isSq := sh.(vpSq)
	vpAssert(isSq == vpBool("sq"), "type assertion follows the dynamic type")
}

func VP_T_defer() {
	x := 0
	func() {
		defer func() { x += 2 }()
		defer func() { x *= 3 }()
		x = vpInt("v")
	}()
	vpAssert(x == vpInt("v")*3+2, "defers run in LIFO order")
}

func VP_T_arith() {
	a := vpInt("a")
	a8, b8 := int8(vpByte("a8")), int8(vpByte("b8"))
	if b8 != 0 && !(a8 == -1<<7 && b8 == -1) {
		vpAssert(a8/b8*b8+a8%b8 == a8, "division identity")
	}
	u := vpUint("u")
	vpAssert(u>>1 <= u, "logical shift")
	s := uint(vpByte("s"))
	vpAssert((u<<s)>>s <= u || s >= 64, "shift round trip never grows")
	i32 := vpInt32("w")
	vpAssert(int64(i32) >= -1<<31 && int64(i32) < 1<<31, "sign extension")
	vpAssert(uint8(a) == uint8(a&0xFF), "truncation")
}

func VP_T_append() {
	n := vpConfig("n")
	var s []int
	for i := 0; i < n; i++ {
		s = append(s, vpInt("x", i))
	}
	t := append([]int{7}, s...)
	vpAssert(len(t) == n+1 && t[0] == 7, "prepend")
	for i := 0; i < n; i++ {
		vpAssert(t[i+1] == vpInt("x", i), "elements kept")
	}
	u := s[:0]
	for _, v := range s {
		if v > 0 {
			u = append(u, v)
		}
	}
	vpAssert(len(u) <= n, "filter in place")
}

// Exploration completeness: branches that cannot be merged (loops with a symbolic trip count,
// early returns out of loops) must be forked and BOTH sides explored whichever side the current
// model happens to sit on; every cover below is reachable, and the path counts are checked by
// the driver through them.
func vpFirstAbove(c []int, lim int) int {
	for i, v := range c {
		if v > lim {
			return i
		}
	}
	return -1
}

func VP_T_forks() {
	m := vpIntRange("m", 0, 3)
	cnt := 0
	for i := 0; i < m; i++ {
		cnt += 2
	}
	vpAssert(cnt == 2*m, "loop with symbolic trip count")
	c := []int{vpIntRange("x0", 0, 9), vpIntRange("x1", 0, 9), vpIntRange("x2", 0, 9)}
	k := vpFirstAbove(c, 4)
	vpAssert(k == -1 || c[k] > 4, "index of the first element above the limit")
	for j := 0; j < 3; j++ {
		if k == -1 || j < k {
			vpAssert(c[j] <= 4, "everything before it is at or below the limit")
		}
	}
	// a down-counting loop: the current model sits on the 'stay' side first
	d := vpIntRange("d", 0, 2)
	steps := 0
	for d > 0 {
		d--
		steps++
	}
	vpAssert(d == 0, "loop ran to its end")
	vpCover("m=0", m == 0)
	vpCover("m=1", m == 1)
	vpCover("m=2", m == 2)
	vpCover("m=3", m == 3)
	vpCover("k=-1", k == -1)
	vpCover("k=0", k == 0)
	vpCover("k=1", k == 1)
	vpCover("k=2", k == 2)
	vpCover("steps=0", steps == 0)
	vpCover("steps=1", steps == 1)
	vpCover("steps=2", steps == 2)
	vpCover("m=3,k=2,steps=2", m == 3 && k == 2 && steps == 2)
	vpCover("m=0,k=-1,steps=0", m == 0 && k == -1 && steps == 0)
}
