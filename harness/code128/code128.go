package code128

import (
	"image"
	"image/color"

	"github.com/boombuler/barcode"
)

// C05 (Code 128) with C10 / C11 / C14 side conditions.

// element widths (bar, space, bar, space, bar, space) of symbol values 0..105 and the
// 7-element stop pattern, from the symbology specification (ISO/IEC 15417 Table 1).
var vpW128 = [107]string{
	"212222", "222122", "222221", "121223", "121322", "131222", "122213", "122312", "132212", "221213",
	"221312", "231212", "112232", "122132", "122231", "113222", "123122", "123221", "223211", "221132",
	"221231", "213212", "223112", "312131", "311222", "321122", "321221", "312212", "322112", "322211",
	"212123", "212321", "232121", "111323", "131123", "131321", "112313", "132113", "132311", "211313",
	"231113", "231311", "112133", "112331", "132131", "113123", "113321", "133121", "313121", "211331",
	"231131", "213113", "213311", "213131", "311123", "311321", "331121", "312113", "312311", "332111",
	"314111", "221411", "431111", "111224", "111422", "121124", "121421", "141122", "141221", "112214",
	"112412", "122114", "122411", "142112", "142211", "241211", "221114", "413111", "241112", "134111",
	"111242", "121142", "121241", "114212", "124112", "124211", "411212", "421112", "421211", "212141",
	"214121", "412121", "111143", "111341", "131141", "114113", "114311", "411113", "411311", "113141",
	"114131", "311141", "411131", "211412", "211214", "211232", "2331112",
}

type vpCol struct{ id int }

func (c vpCol) RGBA() (r, g, b, a uint32) { return uint32(c.id), 0, 0, 0xffff }

const (
	vpFNC1 = 0xF1
	vpFNC2 = 0xF2
	vpFNC3 = 0xF3
	vpFNC4 = 0xF4
)

// vpEncodable: ASCII 0..127 and the four FNC placeholders.
func vpEncodable(r rune) bool {
	return (r >= 0 && r <= 127) || (r >= vpFNC1 && r <= vpFNC4)
}

// vpDecode128 interprets symbol values (start, data, switches) with code sets A, B, C and
// compares the decoded characters with want. It returns whether the decoding is exactly want.
// Code-set switches and the start character are concrete along one encoder path; data values
// are symbolic, so characters are computed arithmetically.
func vpDecode128(idx []int, want []rune) bool {
	if len(idx) == 0 {
		return false
	}
	set := vpConcretize(idx[0]) - 103 // 0 = A, 1 = B, 2 = C
	ok := set >= 0 && set <= 2
	pos := 0
	for i := 1; i < len(idx); i++ {
		v := idx[i]
		if set == 2 {
			if v == 100 || v == 101 {
				if vpConcretize(v) == 100 {
					set = 1
				} else {
					set = 0
				}
				continue
			}
			if v == 102 {
				ok = ok && pos < len(want) && want[pos] == vpFNC1
				pos++
				continue
			}
			ok = ok && v >= 0 && v <= 99 && pos+1 < len(want) && want[pos] == rune('0'+v/10) && want[pos+1] == rune('0'+v%10)
			pos += 2
			continue
		}
		// sets A and B
		if v == 99 {
			set = 2
			continue
		}
		if set == 0 && v == 100 {
			set = 1
			continue
		}
		if set == 1 && v == 101 {
			set = 0
			continue
		}
		var ch rune
		switch {
		case v == 102:
			ch = vpFNC1
		case v == 97:
			ch = vpFNC2
		case v == 96:
			ch = vpFNC3
		case (set == 0 && v == 101) || (set == 1 && v == 100):
			ch = vpFNC4
		case set == 0 && v >= 64:
			ch = rune(v - 64)
		default:
			ch = rune(v + 32)
		}
		ok = ok && v >= 0 && v <= 102 && v != 98 && pos < len(want) && want[pos] == ch
		pos++
	}
	return ok && pos == len(want)
}

// the symbol-value list produced for k symbolic runes after a concrete prefix that sets up a code set
func VP_C128_idx() {
	k := vpConfig("k")
	prefix := vpConfig("prefix") // 0 none, 1 "a" (set B), 2 "\x01" (set A), 3 "1234" (set C), 4 "12345" (C then one more digit)
	var content []rune
	switch prefix {
	case 1:
		content = append(content, 'a')
	case 2:
		content = append(content, 1)
	case 3:
		content = append(content, '1', '2', '3', '4')
	case 4:
		content = append(content, '1', '2', '3', '4', '5')
	}
	np := len(content)
	for i := 0; i < k; i++ {
		content = append(content, vpRune("r", i))
	}
	want := make([]rune, len(content))
	copy(want, content)
	all := true
	for i := np; i < len(content); i++ {
		all = all && vpEncodable(content[i])
	}
	res := getCodeIndexList(content)
	for i := range content {
		vpAssert(content[i] == want[i], "the rune slice is not modified")
	}
	if !all {
		vpAssert(res == nil, "a rune outside ASCII and the FNC placeholders makes the text unencodable")
		vpCover("unencodable", true)
		return
	}
	vpAssert(res != nil, "every text over ASCII 0..127 and FNC1..4 has a symbol-value list")
	if res == nil {
		return
	}
	bs := res.GetBytes()
	idx := make([]int, len(bs))
	for i, b := range bs {
		idx[i] = int(b)
		vpAssert(b <= 105, "symbol values are below the stop value")
	}
	vpAssert(vpDecode128(idx, want), "decoding the symbol values with code sets A, B, C yields exactly the text")
	vpCover("encodable", true)
}

func vpPattern128(v int) (m int, l int) {
	w := vpW128[v]
	for e := 0; e < len(w); e++ {
		n := int(w[e] - '0')
		for q := 0; q < n; q++ {
			m <<= 1
			if e%2 == 0 {
				m |= 1
			}
			l++
		}
	}
	return
}

// the whole symbol for n symbolic ASCII bytes (optionally one FNC placeholder at position fpos)
func VP_C128_sym() {
	n := vpConfig("n")
	fpos := vpConfig("fpos") // -1: none
	fnc := vpConfig("fnc")   // 1..4
	raw := vpString("c", n)
	for i := 0; i < n; i++ {
		vpAssume(raw[i] < 128)
	}
	content := raw
	want := make([]rune, 0, n+1)
	for i := 0; i < n; i++ {
		want = append(want, rune(raw[i]))
	}
	if fpos >= 0 {
		f := string(rune(0xF0 + fnc))
		content = raw[:fpos] + f + raw[fpos:]
		want = append(want, 0)
		copy(want[fpos+1:], want[fpos:])
		want[fpos] = rune(0xF0 + fnc)
	}
	withCS := vpConfig("cs") == 1
	scheme := barcode.ColorScheme16
	var bc barcode.Barcode
	var err error
	switch {
	case withCS && vpConfig("color") == 1:
		scheme = barcode.ColorScheme{Model: color.RGBAModel, Foreground: vpCol{1}, Background: vpCol{2}}
		bc, err = EncodeWithColor(content, scheme)
	case withCS:
		bc, err = Encode(content)
	case vpConfig("color") == 1:
		scheme = barcode.ColorScheme{Model: color.RGBAModel, Foreground: vpCol{1}, Background: vpCol{2}}
		bc, err = EncodeWithoutChecksumWithColor(content, scheme)
	default:
		bc, err = EncodeWithoutChecksum(content)
	}
	vpAssert((bc == nil) != (err == nil), "exactly one of barcode and error is nil")
	if len(want) == 0 {
		vpAssert(err != nil, "empty text is rejected")
		vpCover("rejected-empty", true)
		return
	}
	vpAssert(err == nil && bc != nil, "1..80 characters over ASCII and FNC1..4 are accepted")
	if bc == nil {
		return
	}
	vpAssert(bc.Content() == content, "Content is the text")
	md := bc.Metadata()
	vpAssert(md.CodeKind == "Code 128" && md.Dimensions == 1, "metadata says Code 128, 1D")
	vpAssert(bc.ColorModel() == scheme.Model, "ColorModel is the scheme's model")
	if cs, isC := bc.(barcode.BarcodeColor); isC {
		g := cs.ColorScheme()
		vpAssert(g.Model == scheme.Model && g.Foreground == scheme.Foreground && g.Background == scheme.Background, "ColorScheme() reports the scheme in force")
	} else {
		vpAssert(false, "Code 128 barcodes expose their colour scheme")
	}
	var pat [107]int
	for v := 0; v < 107; v++ {
		m, l := vpPattern128(v)
		pat[v] = m
		if v < 106 {
			vpAssert(l == 11, "oracle table: 11 modules per character")
		} else {
			vpAssert(l == 13, "oracle table: 13-module stop")
		}
	}
	width := bc.Bounds().Dx()
	tail := 13
	if withCS {
		tail += 11
	}
	vpAssert(bc.Bounds() == image.Rect(0, 0, width, 1) && width >= 11+tail && (width-tail)%11 == 0, "bounds: 11 modules per character, (check character,) 13-module stop")
	if width < 11+tail || (width-tail)%11 != 0 {
		return
	}
	nsym := (width - tail) / 11
	// read the symbol values back from the bars: each 11-module group must be a table pattern
	idx := make([]int, nsym)
	for s := 0; s < nsym+1 && (s < nsym || withCS); s++ {
		g := 0
		for k := 0; k < 11; k++ {
			px := bc.At(s*11+k, 0)
			vpAssert(px == scheme.Foreground || px == scheme.Background, "pixels are exactly foreground or background")
			g <<= 1
			if px == scheme.Foreground {
				g |= 1
			}
		}
		v := -1
		for t := 0; t < 106; t++ {
			if g == pat[t] {
				v = t
			}
		}
		vpAssert(v >= 0, "every 11-module group is a pattern of the standard table")
		if s < nsym {
			idx[s] = v
		} else {
			// check character: (start + sum i*value_i) mod 103
			sum := idx[0]
			for i := 1; i < nsym; i++ {
				sum += i * idx[i]
			}
			vpAssert(v == sum%103, "the check character is the modulo-103 weighted sum")
			if ics, has := bc.(barcode.BarcodeIntCS); has {
				vpAssert(ics.CheckSum() == sum%103, "CheckSum() is the modulo-103 check value")
			} else {
				vpAssert(false, "Code 128 with check character exposes CheckSum()")
			}
		}
	}
	for k := 0; k < 13; k++ {
		bar := (pat[106]>>uint(12-k))&1 == 1
		vpAssert((bc.At(width-13+k, 0) == scheme.Foreground) == bar, "stop pattern")
	}
	vpAssert(vpDecode128(idx, want), "decoding the bars with code sets A, B, C yields exactly the text")
	vpCover("accepted", true)
}

// length limits: 80 runes accepted, 81 rejected (two symbolic lower-case letters, the rest constant)
func VP_C128_len() {
	n := vpConfig("n")     // number of characters (runes)
	fnc := vpConfig("fnc") // how many of them are FNC1 (a two-byte rune in the string)
	raw := vpStringRange("c", 2, 'a', 'z')
	content := ""
	for i := 0; i < fnc; i++ {
		content += string(FNC1)
	}
	rest := n - fnc
	if rest >= 1 {
		content += raw[:1]
	}
	for i := 0; i < rest-2; i++ {
		content += "q"
	}
	if rest >= 2 {
		content += raw[1:]
	}
	bc, err := Encode(content)
	if n >= 1 && n <= 80 {
		vpAssert(err == nil && bc != nil, "up to 80 characters are accepted (characters, not bytes)")
		if bc != nil {
			vpAssert(bc.Bounds().Dx() == 11*(n+2)+13, "start + n characters + check + stop")
		}
	} else {
		vpAssert(err != nil && bc == nil, "more than 80 characters are rejected")
	}
	vpCover("reached", true)
}

// C15 / C16: purity (deterministic, history-free, no package-level writes)
func VP_PURE() {
	n := vpConfig("n")
	content := vpString("c", n)
	for i := 0; i < n; i++ {
		vpAssume(content[i] >= 32 && content[i] < 127)
	}
	vpTrackGlobals()
	a, errA := Encode(content)
	_, _ = Encode("other 1234")
	b, errB := Encode(content)
	vpAssert((errA == nil) == (errB == nil), "the same call succeeds or fails the same way every time ")
	if errA == nil && errB == nil {
		vpAssert(a.Bounds() == b.Bounds() && a.Content() == b.Content(), "the same call returns the same barcode whatever was encoded before")
		if a.Bounds() == b.Bounds() {
			for x := 0; x < a.Bounds().Dx(); x++ {
				vpAssert(a.At(x, 0) == b.At(x, 0), "the same call returns the same pixels whatever was encoded before")
			}
		}
	}
	vpAssert(vpGlobalWrites() == 0, "no package-level state is written")
	vpCover("reached", true)
}
