package datamatrix

// Independent reference model of ISO/IEC 16022 Data Matrix ECC 200 (square symbols).
//
// Everything here is derived from the standard (Table 7 symbol attributes, 5.2.3 ASCII
// encodation, 5.2.4.2 / Annex B.1 253-state pad randomising, Annex E Reed-Solomon over
// GF(256)/0x12D, Annex A interleaving, Annex F placement, 5.1/7 finder and clock track) and not
// from the package under test.
//
// Structure (sizes, positions, loop bounds) is always concrete; codeword *values* may be
// symbolic in vpDMMulConst, vpDMRS, vpDMInterleavedECC(Alt) and vpDMMatrix, which never branch on
// them. vpDMEncodeASCII, vpDMDecodeASCII and vpDMEncodeRef branch on content: native use only.

// vpDMSizes returns the 24 square ECC 200 symbols of ISO/IEC 16022 Table 7 in increasing order:
// {symbol size, data regions per side, data codewords, error codewords, interleaved blocks,
// data region size (modules per side of one data region, without its finder/clock border)}.
// symbol size == regions * (region size + 2); mapping matrix side == regions * region size.
func vpDMSizes() [][6]int {
	return [][6]int{
		{10, 1, 3, 5, 1, 8},
		{12, 1, 5, 7, 1, 10},
		{14, 1, 8, 10, 1, 12},
		{16, 1, 12, 12, 1, 14},
		{18, 1, 18, 14, 1, 16},
		{20, 1, 22, 18, 1, 18},
		{22, 1, 30, 20, 1, 20},
		{24, 1, 36, 24, 1, 22},
		{26, 1, 44, 28, 1, 24},
		{32, 2, 62, 36, 1, 14},
		{36, 2, 86, 42, 1, 16},
		{40, 2, 114, 48, 1, 18},
		{44, 2, 144, 56, 1, 20},
		{48, 2, 174, 68, 1, 22},
		{52, 2, 204, 84, 2, 24},
		{64, 4, 280, 112, 2, 14},
		{72, 4, 368, 144, 4, 16},
		{80, 4, 456, 192, 4, 18},
		{88, 4, 576, 224, 4, 20},
		{96, 4, 696, 272, 4, 22},
		{104, 4, 816, 336, 6, 24},
		{120, 6, 1050, 408, 6, 18},
		{132, 6, 1304, 496, 8, 20},
		{144, 6, 1558, 620, 10, 22},
	}
}

// vpDMIsDigit is a native-only helper.
func vpDMIsDigit(c byte) bool { return c >= '0' && c <= '9' }

// vpDMEncodeASCII is the ASCII encodation scheme (5.2.3): a pair of digits -> 130 + value,
// ASCII character c (0..127) -> c + 1, extended ASCII c (128..255) -> Upper Shift (235) followed
// by c - 127. Digit pairs are formed greedily from left to right. NATIVE USE ONLY.
func vpDMEncodeASCII(content []byte) []byte {
	out := make([]byte, 0, 2*len(content))
	i := 0
	for i < len(content) {
		c := content[i]
		if vpDMIsDigit(c) && i+1 < len(content) && vpDMIsDigit(content[i+1]) {
			out = append(out, byte(130+int(c-'0')*10+int(content[i+1]-'0')))
			i += 2
			continue
		}
		if c >= 128 {
			out = append(out, 235, byte(int(c)-127))
		} else {
			out = append(out, c+1)
		}
		i++
	}
	return out
}

// vpDMDecodeASCII decodes the first n codewords of cw as ASCII encodation: 1..128 -> cw-1,
// 130..229 -> two digits, 235 -> Upper Shift (next codeword 1..128 gives value+127), 129 -> pad,
// which ends the message. Anything else (or a dangling Upper Shift) gives ok == false.
// NATIVE USE ONLY.
func vpDMDecodeASCII(cw []int, n int) (out []int, outLen int, ok bool) {
	out = make([]int, 2*n+2)
	i := 0
	for i < n {
		c := cw[i]
		i++
		if c >= 1 && c <= 128 {
			out[outLen] = c - 1
			outLen++
		} else if c == 129 {
			return out, outLen, true
		} else if c >= 130 && c <= 229 {
			out[outLen] = '0' + (c-130)/10
			out[outLen+1] = '0' + (c-130)%10
			outLen += 2
		} else if c == 235 {
			if i >= n || cw[i] < 1 || cw[i] > 128 {
				return out, outLen, false
			}
			out[outLen] = cw[i] + 127
			outLen++
			i++
		} else {
			return out, outLen, false
		}
	}
	return out, outLen, true
}

// vpDMPadding returns the pad codewords for the 1-based codeword positions dataLen+1..capacity:
// the first one is the plain pad 129, the following ones are 129 randomised with the 253-state
// algorithm on their position.
func vpDMPadding(dataLen, capacity int) []int {
	n := capacity - dataLen
	if n < 0 {
		n = 0
	}
	out := make([]int, n)
	for k := 0; k < n; k++ {
		pos := dataLen + 1 + k
		v := 129
		if k > 0 {
			r := (149*pos)%253 + 1
			v = 129 + r
			if v > 254 {
				v -= 254
			}
		}
		out[k] = v
	}
	return out
}

// vpDMMulConst multiplies a (possibly symbolic, 0..255) by the constant c (0..255) in
// GF(256) modulo x^8+x^5+x^3+x^2+1 (0x12D) without branching on a.
func vpDMMulConst(a int, c int) int {
	r := 0
	for i := 0; i < 8; i++ {
		r ^= (a << uint(i)) * ((c >> uint(i)) & 1)
	}
	for i := 14; i >= 8; i-- {
		r ^= (0x12D << uint(i-8)) * ((r >> uint(i)) & 1)
	}
	return r
}

// vpDMGenerator returns the coefficients g[0..n] (g[i] belongs to x^i, g[n] == 1) of
// (x - alpha^1)(x - alpha^2)...(x - alpha^n), alpha = 2. Concrete.
func vpDMGenerator(n int) []int {
	g := make([]int, n+1)
	g[0] = 1
	root := 1
	for i := 1; i <= n; i++ {
		root = vpDMMulConst(root, 2) // alpha^i
		// g(x) *= (x + root)
		for j := i; j >= 1; j-- {
			g[j] = g[j-1] ^ vpDMMulConst(g[j], root)
		}
		g[0] = vpDMMulConst(g[0], root)
	}
	return g
}

// vpDMRS returns the ecLen Reed-Solomon check codewords of data: the remainder of
// data(x) * x^ecLen divided by the generator polynomial, highest power first. data may be
// symbolic; the number of steps depends only on len(data) and ecLen.
func vpDMRS(data []int, ecLen int) []int {
	g := vpDMGenerator(ecLen)
	reg := make([]int, ecLen) // reg[j] is the coefficient of x^j
	for i := 0; i < len(data); i++ {
		fb := data[i] ^ reg[ecLen-1]
		for j := ecLen - 1; j >= 1; j-- {
			reg[j] = reg[j-1] ^ vpDMMulConst(fb, g[j])
		}
		reg[0] = vpDMMulConst(fb, g[0])
	}
	out := make([]int, ecLen)
	for j := 0; j < ecLen; j++ {
		out[j] = reg[ecLen-1-j]
	}
	return out
}

// vpDMInterleave builds data||ecc. Block b (0-based) consists of the data codewords
// b, b+blocks, b+2*blocks, ... (so for 144x144 blocks 0..7 get 156 and blocks 8, 9 get 155 data
// codewords). With alt == false the k-th check codeword of block b is stored at
// dataLen + b + k*blocks (each check "row" starts with block 0, as drawn in Annex A). With
// alt == true the round-robin over the blocks simply continues through the whole codeword
// stream, i.e. stream position p always belongs to block p mod blocks; this differs only when
// dataLen is not a multiple of blocks, which among the square symbols is 144x144 only (there
// the first check codeword belongs to block 8).
func vpDMInterleave(size [6]int, data []int, alt bool) []int {
	dataLen := size[2]
	eccLen := size[3]
	blocks := size[4]
	per := eccLen / blocks
	out := make([]int, dataLen+eccLen)
	for i := 0; i < dataLen; i++ {
		out[i] = data[i]
	}
	shift := 0
	if alt {
		shift = dataLen % blocks
	}
	for b := 0; b < blocks; b++ {
		cnt := (dataLen - b + blocks - 1) / blocks
		blk := make([]int, cnt)
		for k := 0; k < cnt; k++ {
			blk[k] = data[b+k*blocks]
		}
		ecc := vpDMRS(blk, per)
		slot := (b - shift + blocks) % blocks
		for k := 0; k < per; k++ {
			out[dataLen+slot+k*blocks] = ecc[k]
		}
	}
	return out
}

// vpDMInterleavedECC: full codeword sequence, standard convention (see vpDMInterleave).
func vpDMInterleavedECC(size [6]int, data []int) []int {
	return vpDMInterleave(size, data, false)
}

// vpDMInterleavedECCAlt: full codeword sequence, "continued round-robin" convention for
// 144x144 (see vpDMInterleave); identical to vpDMInterleavedECC for every other square size.
func vpDMInterleavedECCAlt(size [6]int, data []int) []int {
	return vpDMInterleave(size, data, true)
}

// vpDMPlaceModule is Annex F "module": place bit (1 = MSB .. 8 = LSB) of character chr
// (1-based) at row/col with the wrapping rules of the standard.
func vpDMPlaceModule(arr [][2]int, nrow, ncol, row, col, chr, bit int) {
	if row < 0 {
		row += nrow
		col += 4 - ((nrow + 4) % 8)
	}
	if col < 0 {
		col += ncol
		row += 4 - ((ncol + 4) % 8)
	}
	arr[row*ncol+col] = [2]int{chr - 1, bit - 1}
}

// vpDMPlaceUtah is Annex F "utah": the standard L/utah shaped symbol character whose bit 8 is
// at row/col.
func vpDMPlaceUtah(arr [][2]int, nrow, ncol, row, col, chr int) {
	vpDMPlaceModule(arr, nrow, ncol, row-2, col-2, chr, 1)
	vpDMPlaceModule(arr, nrow, ncol, row-2, col-1, chr, 2)
	vpDMPlaceModule(arr, nrow, ncol, row-1, col-2, chr, 3)
	vpDMPlaceModule(arr, nrow, ncol, row-1, col-1, chr, 4)
	vpDMPlaceModule(arr, nrow, ncol, row-1, col, chr, 5)
	vpDMPlaceModule(arr, nrow, ncol, row, col-2, chr, 6)
	vpDMPlaceModule(arr, nrow, ncol, row, col-1, chr, 7)
	vpDMPlaceModule(arr, nrow, ncol, row, col, chr, 8)
}

// vpDMPlaceCorner places one of the four special corner characters (which = 1..4).
func vpDMPlaceCorner(arr [][2]int, nrow, ncol, which, chr int) {
	var p [8][2]int
	switch which {
	case 1:
		p = [8][2]int{{nrow - 1, 0}, {nrow - 1, 1}, {nrow - 1, 2}, {0, ncol - 2},
			{0, ncol - 1}, {1, ncol - 1}, {2, ncol - 1}, {3, ncol - 1}}
	case 2:
		p = [8][2]int{{nrow - 3, 0}, {nrow - 2, 0}, {nrow - 1, 0}, {0, ncol - 4},
			{0, ncol - 3}, {0, ncol - 2}, {0, ncol - 1}, {1, ncol - 1}}
	case 3:
		p = [8][2]int{{nrow - 3, 0}, {nrow - 2, 0}, {nrow - 1, 0}, {0, ncol - 2},
			{0, ncol - 1}, {1, ncol - 1}, {2, ncol - 1}, {3, ncol - 1}}
	default:
		p = [8][2]int{{nrow - 1, 0}, {nrow - 1, ncol - 1}, {0, ncol - 3}, {0, ncol - 2},
			{0, ncol - 1}, {1, ncol - 3}, {1, ncol - 2}, {1, ncol - 1}}
	}
	for k := 0; k < 8; k++ {
		vpDMPlaceModule(arr, nrow, ncol, p[k][0], p[k][1], chr, k+1)
	}
}

// vpDMPlacement is the ISO/IEC 16022 Annex F placement for an nrow x ncol mapping matrix.
// Entry row*ncol+col is {codeword index (0-based), bit index (0 = MSB .. 7 = LSB)}, or
// {-1, 0} for a fixed dark module and {-2, 0} for a fixed light module (the 2x2 pattern in the
// lower right corner when the placement leaves it unfilled: the two modules on the main
// diagonal are dark, the other two light). Concrete: depends on the size only.
func vpDMPlacement(nrow, ncol int) [][2]int {
	arr := make([][2]int, nrow*ncol)
	for i := range arr {
		arr[i] = [2]int{-2, 0}
	}
	chr := 1
	row := 4
	col := 0
	for {
		if row == nrow && col == 0 {
			vpDMPlaceCorner(arr, nrow, ncol, 1, chr)
			chr++
		}
		if row == nrow-2 && col == 0 && ncol%4 != 0 {
			vpDMPlaceCorner(arr, nrow, ncol, 2, chr)
			chr++
		}
		if row == nrow-2 && col == 0 && ncol%8 == 4 {
			vpDMPlaceCorner(arr, nrow, ncol, 3, chr)
			chr++
		}
		if row == nrow+4 && col == 2 && ncol%8 == 0 {
			vpDMPlaceCorner(arr, nrow, ncol, 4, chr)
			chr++
		}
		// sweep upward diagonally
		for {
			if row < nrow && col >= 0 && arr[row*ncol+col][0] == -2 {
				vpDMPlaceUtah(arr, nrow, ncol, row, col, chr)
				chr++
			}
			row -= 2
			col += 2
			if !(row >= 0 && col < ncol) {
				break
			}
		}
		row += 1
		col += 3
		// sweep downward diagonally
		for {
			if row >= 0 && col < ncol && arr[row*ncol+col][0] == -2 {
				vpDMPlaceUtah(arr, nrow, ncol, row, col, chr)
				chr++
			}
			row += 2
			col -= 2
			if !(row < nrow && col >= 0) {
				break
			}
		}
		row += 3
		col += 1
		if !(row < nrow || col < ncol) {
			break
		}
	}
	if arr[nrow*ncol-1][0] == -2 {
		arr[nrow*ncol-1] = [2]int{-1, 0}
		arr[nrow*ncol-ncol-2] = [2]int{-1, 0}
	}
	return arr
}

// vpDMMatrix builds the complete symbol for the given size and (possibly symbolic) codeword
// sequence, indexed [x][y] with x the column, y the row, y == 0 at the top; true == dark.
// Every data region is surrounded by its finder: solid dark left column and bottom row,
// alternating top row (dark at the left end, light at the right end) and alternating right
// column (dark at the bottom end, light at the top end).
func vpDMMatrix(size [6]int, codewords []int) [][]bool {
	sym := size[0]
	regions := size[1]
	rs := size[5]
	side := regions * rs
	place := vpDMPlacement(side, side)
	m := make([][]bool, sym)
	for x := 0; x < sym; x++ {
		m[x] = make([]bool, sym)
	}
	for x := 0; x < sym; x++ {
		ix := x % (rs + 2)
		for y := 0; y < sym; y++ {
			iy := y % (rs + 2)
			if ix == 0 || iy == rs+1 {
				m[x][y] = true // solid L
			} else if iy == 0 {
				m[x][y] = ix%2 == 0 // top clock track
			} else if ix == rs+1 {
				m[x][y] = iy%2 == 1 // right clock track
			} else {
				col := (x/(rs+2))*rs + ix - 1
				row := (y/(rs+2))*rs + iy - 1
				p := place[row*side+col]
				if p[0] == -1 {
					m[x][y] = true
				} else if p[0] == -2 {
					m[x][y] = false
				} else {
					m[x][y] = (codewords[p[0]]>>uint(7-p[1]))&1 == 1
				}
			}
		}
	}
	return m
}

// vpDMEncodeRef is the complete reference encoder: ASCII encodation, smallest square symbol
// that holds it, padding, Reed-Solomon with (standard convention) interleaving. ok == false if
// the message does not fit into 144x144. NATIVE USE ONLY.
func vpDMEncodeRef(content []byte) (size [6]int, codewords []int, ok bool) {
	enc := vpDMEncodeASCII(content)
	sizes := vpDMSizes()
	found := -1
	for i := len(sizes) - 1; i >= 0; i-- {
		if sizes[i][2] >= len(enc) {
			found = i
		}
	}
	if found < 0 {
		return size, nil, false
	}
	size = sizes[found]
	data := make([]int, size[2])
	for i := 0; i < len(enc); i++ {
		data[i] = int(enc[i])
	}
	pad := vpDMPadding(len(enc), size[2])
	for i := 0; i < len(pad); i++ {
		data[len(enc)+i] = pad[i]
	}
	return size, vpDMInterleavedECC(size, data), true
}
