package spec

import "vpengine/exec"

const azCheckWords = "github.com/boombuler/barcode/aztec.generateCheckWords"

func init() {
	oracle := "reference model harness/aztec/oracle_aztec.go written from ISO/IEC 24778 (sizes, word sizes, bullseye, orientation marks, mode message with RS over GF(16), reference grid, spiral data placement, RS over GF(64..4096), stuffing, full character-set decoder), validated natively against 21993 library symbols of all 36 types"
	rsStub := "(*ReedSolomonEncoder).Encode replaced by the reference remainder (value-preserving; guarantee side: RS-enc-az* obligations of C17)"
	rs := func(in *exec.Instance, tier string) {
		in.Redirect = map[string]string{rsEncode: "utils:VPRSEncodeSummary"}
	}
	reg(&Oblig{ID: "AZ-A", Pkg: "aztec", Func: "VP_AZ_hl", Props: []string{"C03"},
		Desc:  "high-level encoder: after concrete prefixes leaving the search in every mode mix, n symbolic bytes; the reference decoder (all five modes, latches, shifts, punctuation pairs, binary shift in short and long form) returns the payload byte for byte; payload untouched",
		Real:  []string{"aztec.highlevelEncode", "aztec.updateStateListForChar/Pair", "aztec.updateStateForChar/Pair", "aztec.simplifyStates", "(*state).latchAndAppend/shiftAndAppend/addBinaryShiftChar/endBinaryShift/isBetterThanOrEqualTo/toBitList", "(*simpleToken).appendTo", "(*binaryShiftToken).appendTo"},
		Stubs: []string{oracle}, Bound: "1 fully symbolic byte (all 256 values) after each of 13 prefixes (mode mixes incl. firm latches to Punct, Digit, Mixed, Lower and punctuation pairs); 2 symbolic bytes >= 0x80 after each firm latch; binary runs of 1, 31, 32, 62, 63, 64, 100 symbolic bytes >= 0x80 (header forms); thorough adds 2 symbolic bytes from the initial state",
		Configs: func(tier string, seed int64) []map[string]int {
			var out []map[string]int
			for p := 0; p <= 12; p++ {
				out = append(out, map[string]int{"n": 1, "prefix": p, "class": 0})
			}
			for p := 8; p <= 11; p++ { // a binary run right after a firm latch
				out = append(out, map[string]int{"n": 2, "prefix": p, "class": 1})
			}
			out = append(out, map[string]int{"n": 0, "prefix": 0, "class": 0})
			for _, n := range []int{1, 31, 32, 62, 63, 64, 100} {
				out = append(out, map[string]int{"n": n, "prefix": 0, "class": 1}, map[string]int{"n": n, "prefix": 1, "class": 1})
			}
			if tier == "thorough" {
				out = append(out, map[string]int{"n": 2, "prefix": 0, "class": 0})
			}
			return out
		},
		Tune: func(in *exec.Instance, tier string) {
			if tier == "thorough" {
				in.TimeLimit = 0
			}
		}})
	reg(&Oblig{ID: "AZ-B", Pkg: "aztec", Func: "VP_AZ_stuff", Props: []string{"C03"}, Desc: "bit stuffing of symbolic bits: equals the reference stuffing; whole words; no all-zero / all-one word",
		Real: []string{"aztec.stuffBits"}, Stubs: []string{oracle}, Bound: "word sizes 6, 8, 10, 12 x input lengths {0, w-1, w, 2w+1, 3w} all bits symbolic (quick); up to 5 words (thorough)",
		Configs: func(tier string, seed int64) []map[string]int {
			var out []map[string]int
			for _, ws := range []int{6, 8, 10, 12} {
				ns := []int{0, ws - 1, ws, 2*ws + 1, 3 * ws}
				if tier == "thorough" {
					ns = append(ns, 4*ws+3, 5*ws)
				}
				for _, n := range ns {
					out = append(out, map[string]int{"ws": ws, "n": n})
				}
			}
			return out
		}})
	reg(&Oblig{ID: "AZ-D-mode", Pkg: "aztec", Func: "VP_AZ_modemsg", Props: []string{"C03", "C12"}, Desc: "mode message for every symbol type and data-word count: layers-1, words-1, Reed-Solomon over GF(16)/0x13",
		Real: []string{"aztec.generateModeMessage", "aztec.generateCheckWords", "aztec.bitsToWords", "aztec.getGF"}, Stubs: []string{oracle, "arguments concrete (enumerated): the function has no symbolic input in the library"},
		Bound: "compact 1..4 x all 64 word counts; full-range layers {1,2,5,13,22,23,32} x every 37th count (quick), all 32 layer counts x every 7th count (thorough)",
		Configs: func(tier string, seed int64) []map[string]int {
			var out []map[string]int
			for l := 1; l <= 4; l++ {
				out = append(out, map[string]int{"compact": 1, "layers": l, "step": 1})
			}
			ls, step := []int{1, 2, 5, 13, 22, 23, 32}, 37
			if tier == "thorough" {
				ls, step = rng(1, 32), 7
			}
			for _, l := range ls {
				out = append(out, map[string]int{"compact": 0, "layers": l, "step": step})
			}
			return out
		}})
	reg(&Oblig{ID: "AZ-D-check", Pkg: "aztec", Func: "VP_AZ_checkwords", Props: []string{"C03", "C12"}, Desc: "generateCheckWords for symbolic data words: start padding, data words kept, check words = RS remainder over the field of the word size, message fills the symbol",
		Real: []string{"aztec.generateCheckWords", "aztec.bitsToWords", "aztec.getGF", "aztec.totalBitsInLayer", "aztec.word_size"}, Stubs: []string{oracle, rsStub},
		Bound: "symbol types compact 1, 4 and full 1, 3, 9, 23 with data-word counts near capacity (every stride-th data word symbolic in the big symbols; 7..20 check words) (quick); more types (thorough)",
		Configs: func(tier string, seed int64) []map[string]int {
			// data-word counts near the capacity of the type: the check-word count (and with it the cost of the
			// generator polynomial) stays small, as in real symbols with a low percentage
			out := []map[string]int{{"compact": 1, "layers": 1, "words": 10, "stride": 1}, {"compact": 1, "layers": 4, "words": 64, "stride": 1}, {"compact": 0, "layers": 1, "words": 12, "stride": 1},
				{"compact": 0, "layers": 3, "words": 50, "stride": 1}, {"compact": 0, "layers": 9, "words": 215, "stride": 10}, {"compact": 0, "layers": 23, "words": 900, "stride": 100}}
			if tier == "thorough" {
				out = append(out, map[string]int{"compact": 1, "layers": 2, "words": 30, "stride": 1}, map[string]int{"compact": 0, "layers": 2, "words": 30, "stride": 1}, map[string]int{"compact": 0, "layers": 8, "words": 160, "stride": 4},
					map[string]int{"compact": 0, "layers": 22, "words": 1000, "stride": 50}, map[string]int{"compact": 0, "layers": 32, "words": 1600, "stride": 100}, map[string]int{"compact": 0, "layers": 23, "words": 900, "stride": 20})
			}
			return out
		}, Tune: rs})
	reg(&Oblig{ID: "AZ-E", Pkg: "aztec", Func: "VP_AZ_layout", Props: []string{"C03", "C11"}, Desc: "drawing for arbitrary message bits, every symbol type via an explicit layer request: every module equals the ISO layout (bullseye, orientation marks, mode message ring, complete reference grid, data spiral); size; colours from the scheme; metadata; Content",
		Real:  []string{"aztec.EncodeWithColor (layer request, drawing loops, alignment map)", "aztec.drawModeMessage", "aztec.drawBullsEye", "aztec.newAztecCode", "(*aztecCode).set/At/Bounds/ColorModel/ColorScheme/Metadata/Content"},
		Stubs: []string{oracle, rsStub, "generateCheckWords at its call site in EncodeWithColor (not the one inside generateModeMessage) replaced by totalBits arbitrary message bits; natively the harness recomputes the real message bits, so layout counterexamples replay"},
		Bound: "all 4 compact + 32 full-range types, all message bits symbolic, payload \"A\"",
		Configs: func(tier string, seed int64) []map[string]int {
			var out []map[string]int
			for l := 1; l <= 4; l++ {
				out = append(out, map[string]int{"compact": 1, "layers": l})
			}
			for l := 1; l <= 32; l++ {
				out = append(out, map[string]int{"compact": 0, "layers": l})
			}
			return out
		},
		Tune: func(in *exec.Instance, tier string) {
			in.Redirect = map[string]string{rsEncode: "utils:VPRSEncodeSummary", azCheckWords + "|EncodeWithColor": "aztec:vpCheckWordsStub", azCheckWords + "|VP_AZ_layout": "aztec:vpCheckWordsStub"}
		}})
	reg(&Oblig{ID: "AZ-C", Pkg: "aztec", Func: "VP_AZ_size", Props: []string{"C03", "C10", "C12", "C13"}, Desc: "size selection with a symbolic error-correction percentage: layer requests outside -4..32 refused, explicit requests honoured exactly or refused, the symbol produced carries check words worth at least the requested percentage of the data bits (no wrap-around), no panic for any non-negative percentage",
		Real:  []string{"aztec.Encode", "aztec.EncodeWithColor (eccBits arithmetic, layer loop)", "aztec.totalBitsInLayer", "aztec.stuffBits", "aztec.highlevelEncode"},
		Stubs: []string{oracle, "generateCheckWords stubbed at its call site in EncodeWithColor (sizes only matter here)", "payload: binary bytes whose bit stream never needs stuffing (10x10x10), length n"},
		Bound: "payload lengths {0,1,3,10,30,60,200,1000} x percentage symbolic over 0..300 and over the whole non-negative int range x layer request in {0, -6..34, MinInt} (request sweep for n = 3)",
		Configs: func(tier string, seed int64) []map[string]int {
			var out []map[string]int
			const maxInt = 1<<63 - 1
			for _, n := range []int{0, 1, 3, 10, 30, 60, 200, 1000} {
				out = append(out, map[string]int{"n": n, "minpct": 0, "maxpct": 300, "req": 0})
				if n <= 200 {
					out = append(out, map[string]int{"n": n, "minpct": 0, "maxpct": maxInt, "req": 0})
				}
			}
			for req := -6; req <= 34; req++ {
				if req != 0 {
					out = append(out, map[string]int{"n": 3, "minpct": 0, "maxpct": 300, "req": req})
				}
			}
			out = append(out, map[string]int{"n": 3, "minpct": 0, "maxpct": 100, "req": -1 << 63}, map[string]int{"n": 3, "minpct": 0, "maxpct": 100, "req": maxInt},
				map[string]int{"n": 60, "minpct": 0, "maxpct": maxInt, "req": -4}, map[string]int{"n": 60, "minpct": 0, "maxpct": maxInt, "req": 5})
			return out
		},
		Tune: func(in *exec.Instance, tier string) {
			in.Redirect = map[string]string{rsEncode: "utils:VPRSEncodeSummary", azCheckWords + "|EncodeWithColor": "aztec:vpCheckWordsStub"}
		}})
	reg(&Oblig{ID: "AZ-F", Pkg: "aztec", Func: "VP_AZ_e2e", Props: []string{"C03", "C15"}, Desc: "Encode end to end on a short symbolic payload: every module equals the reference pipeline (stuffing, at least one data word, RS, mode message, layout); explicit requests honoured; Content; payload untouched; snapshot: overwriting the caller's buffer afterwards changes nothing",
		Real:  []string{"aztec.Encode", "aztec.EncodeWithColor", "(*aztecCode).Content", "all of AZ-A..E"},
		Stubs: []string{oracle, rsStub, "high-level bit stream inside this obligation is the library's own (guarantee side: AZ-A)"},
		Bound: "n <= 1 arbitrary symbolic byte, n in {2,3} symbolic bytes >= 0x80, empty payload; default parameters and explicit layer requests / percentages",
		Configs: func(tier string, seed int64) []map[string]int {
			out := []map[string]int{{"n": 0, "class": 0, "pct": 33, "req": 0}, {"n": 0, "class": 0, "pct": 0, "req": -1}, {"n": 0, "class": 0, "pct": 90, "req": 3},
				{"n": 1, "class": 0, "pct": 33, "req": 0}, {"n": 1, "class": 0, "pct": 5, "req": 2}, {"n": 2, "class": 1, "pct": 23, "req": -2}, {"n": 3, "class": 1, "pct": 33, "req": 0}, {"n": 2, "class": 1, "pct": 50, "req": 9}}
			if tier == "thorough" {
				out = append(out, map[string]int{"n": 5, "class": 1, "pct": 33, "req": 0}, map[string]int{"n": 4, "class": 1, "pct": 10, "req": 23})
			}
			return out
		}, Tune: rs})
	reg(&Oblig{ID: "AZ-min", Pkg: "aztec", Func: "VP_AZ_minimal", Props: []string{"C13"}, Desc: "relational minimality: for the automatically chosen size, every smaller compact / full-range size is refused when requested explicitly with the same payload and (symbolic) percentage; if nothing fits automatically nothing fits explicitly",
		Real:  []string{"aztec.Encode (automatic loop and explicit-request path)"},
		Stubs: []string{oracle, "generateCheckWords stubbed at its call site in EncodeWithColor", "payload: binary bytes whose bit stream never needs stuffing"},
		Bound: "payload lengths {1, 10, 40, 120} x percentage symbolic over 0..200",
		Configs: func(tier string, seed int64) []map[string]int {
			var out []map[string]int
			for _, n := range []int{1, 10, 40, 120} {
				out = append(out, map[string]int{"n": n, "minpct": 0, "maxpct": 200})
			}
			if tier == "thorough" {
				out = append(out, map[string]int{"n": 400, "minpct": 0, "maxpct": 300}, map[string]int{"n": 1200, "minpct": 0, "maxpct": 100})
			}
			return out
		},
		Tune: func(in *exec.Instance, tier string) {
			in.Redirect = map[string]string{rsEncode: "utils:VPRSEncodeSummary", azCheckWords + "|EncodeWithColor": "aztec:vpCheckWordsStub"}
		}})
}
