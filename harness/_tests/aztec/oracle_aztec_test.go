package aztec

// Native validation of the ISO/IEC 24778 reference model (oracle_aztec.go)
// against the real encoder. Run in a scratch copy of the repository with the
// oracle copied next to the package:
//
//	cp /verif/harness/aztec/oracle_aztec.go        <scratch>/aztec/zz_vp_oracle_aztec.go
//	cp /verif/harness/_tests/aztec/oracle_aztec_test.go <scratch>/aztec/zz_vp_oracle_aztec_test.go
//	go test -vet=off -count=1 -run VPOracle -v ./aztec/

import (
	"bytes"
	"fmt"
	"image/color"
	"math/rand"
	"sort"
	"sync"
	"testing"

	"github.com/boombuler/barcode"
	"github.com/boombuler/barcode/utils"
)

type vpAzCase struct {
	name string
	data []byte
}

func vpAzRun(b byte, n int) []byte { return bytes.Repeat([]byte{b}, n) }

func vpAzSeq(start, n int) []byte {
	out := make([]byte, n)
	for i := range out {
		out[i] = byte(start + i)
	}
	return out
}

func vpAzCat(parts ...[]byte) []byte {
	var out []byte
	for _, p := range parts {
		out = append(out, p...)
	}
	return out
}

func vpAzPayloads() []vpAzCase {
	cs := []vpAzCase{
		{"empty", []byte{}},
		{"upper-1", []byte("A")},
		{"upper-hello", []byte("HELLO WORLD")},
		{"upper-alphabet", []byte("ABCDEFGHIJKLMNOPQRSTUVWXYZ")},
		{"lower-hello", []byte("hello world")},
		{"lower-alphabet", []byte("abcdefghijklmnopqrstuvwxyz")},
		{"mixed-all", []byte("\x01\x02\x03\x04\x05\x06\x07\x08\x09\x0a\x0b\x0c\x0d\x1b\x1c\x1d\x1e\x1f@\\^_`|~\x7f")},
		{"punct-all", []byte("!\"#$%&'()*+,-./:;<=>?[]{}")},
		{"punct-cr", []byte("\r")},
		{"punct-crlf", []byte("\r\n")},
		{"punct-dot-space", []byte(". ")},
		{"punct-comma-space", []byte(", ")},
		{"punct-colon-space", []byte(": ")},
		{"punct-pairs-in-text", []byte("a. b, c: d\r\ne. F, G: H\r\n")},
		{"digit-0-9", []byte("0123456789")},
		{"digit-punct", []byte("3.14,15 92")},
		{"digit-40", []byte("1234567890123456789012345678901234567890")},
		{"switch-heavy-1", []byte("Aa0!Bb1?Cc2@Dd3#\x01Ee")},
		{"switch-heavy-2", []byte("A1a.B2b,C3c:D4d;")},
		{"switch-heavy-3", []byte("Code 2D!")},
		{"switch-heavy-4", []byte("a\x80B\x811\x82.\x83\x01\x84")},
		{"switch-heavy-5", []byte("x. y, z: 1. 2, 3: A. B, C: \r\n\r\r\n")},
		{"sentence", []byte("The quick brown fox jumps over the lazy dog 0123456789 TIMES, then. Stops: now!\r\n")},
		{"url", []byte("https://example.com/path?query=Value&other=123#frag")},
		{"all-256-bytes", vpAzSeq(0, 256)},
		{"all-256-bytes-desc", func() []byte {
			b := vpAzSeq(0, 256)
			for i, j := 0, 255; i < j; i, j = i+1, j-1 {
				b[i], b[j] = b[j], b[i]
			}
			return b
		}()},
		{"zeros-50", vpAzRun(0x00, 50)},
		{"ff-50", vpAzRun(0xff, 50)},
		{"upper-500", bytes.Repeat([]byte("AZTEC CODE "), 46)[:500]},
		{"text-1000", bytes.Repeat([]byte("Lorem ipsum 12345, dolor: SIT amet. "), 28)[:1000]},
		{"digits-1500", bytes.Repeat([]byte("0123456789"), 150)},
		{"upper-3000", bytes.Repeat([]byte("ABCDEFGHIJKLMNOPQRSTUVWXYZ "), 112)[:3000]},
		{"binary-1000", vpAzSeq(128, 1000)},
		{"binary-1900", vpAzSeq(7, 1900)},
	}
	for _, n := range []int{1, 31, 32, 62, 63, 64, 100} {
		cs = append(cs, vpAzCase{fmt.Sprintf("binary-run-%d", n), vpAzSeq(0x80, n)})
		cs = append(cs, vpAzCase{fmt.Sprintf("binary-run-%d-in-text", n), vpAzCat([]byte("AB"), vpAzSeq(0xa0, n), []byte("cd12"))})
		cs = append(cs, vpAzCase{fmt.Sprintf("binary-run-%d-after-digits", n), vpAzCat([]byte("123"), vpAzRun(0xee, n))})
	}
	rnd := rand.New(rand.NewSource(24778))
	alphabets := [][]byte{
		nil, // all bytes
		[]byte("ABCDEFGHIJKLMNOPQRSTUVWXYZ abcdefghijklmnopqrstuvwxyz0123456789"),
		[]byte("AB ab01.,:!\r\n\x01@\x80"),
		[]byte("0123456789.,  "),
		[]byte("\x00\xff"),
	}
	for ai, alpha := range alphabets {
		for _, n := range []int{1, 2, 3, 5, 8, 13, 21, 34, 55, 89, 144, 400} {
			b := make([]byte, n)
			for i := range b {
				if alpha == nil {
					b[i] = byte(rnd.Intn(256))
				} else {
					b[i] = alpha[rnd.Intn(len(alpha))]
				}
			}
			cs = append(cs, vpAzCase{fmt.Sprintf("random-a%d-n%d", ai, n), b})
		}
	}
	return cs
}

func vpAzImage(bc barcode.Barcode) (img [][]bool, bad string) {
	b := bc.Bounds()
	if b.Min.X != 0 || b.Min.Y != 0 || b.Dx() != b.Dy() {
		return nil, fmt.Sprintf("bounds %v", b)
	}
	n := b.Dx()
	img = make([][]bool, n)
	for x := 0; x < n; x++ {
		img[x] = make([]bool, n)
		for y := 0; y < n; y++ {
			c := bc.At(x, y)
			if c == color.Black {
				img[x][y] = true
			} else if c != color.White {
				return nil, fmt.Sprintf("pixel (%d,%d) = %v", x, y, c)
			}
		}
	}
	return img, ""
}

func vpAzBitsOfList(bl *utils.BitList) []bool {
	out := make([]bool, bl.Len())
	for i := range out {
		out[i] = bl.GetBit(i)
	}
	return out
}

func vpAzEqBits(a, b []bool) bool {
	if len(a) != len(b) {
		return false
	}
	for i := range a {
		if a[i] != b[i] {
			return false
		}
	}
	return true
}

func vpAzEqImg(a, b [][]bool) (bool, string) {
	if len(a) != len(b) {
		return false, fmt.Sprintf("size %d vs %d", len(a), len(b))
	}
	for x := range a {
		for y := range a[x] {
			if a[x][y] != b[x][y] {
				return false, fmt.Sprintf("first difference at (x=%d,y=%d): library %v, oracle %v", x, y, a[x][y], b[x][y])
			}
		}
	}
	return true, ""
}

func vpAzShow(data []byte) string {
	if len(data) <= 48 {
		return fmt.Sprintf("%q", data)
	}
	return fmt.Sprintf("%q...(%d bytes)", data[:48], len(data))
}

// findings collects disagreements by category.
type vpAzFindings struct {
	mu    sync.Mutex
	count map[string]int
	first map[string][]string
}

func (f *vpAzFindings) add(cat, detail string) {
	f.mu.Lock()
	defer f.mu.Unlock()
	if f.count == nil {
		f.count = map[string]int{}
		f.first = map[string][]string{}
	}
	f.count[cat]++
	f.first[cat] = append(f.first[cat], detail)
}

func (f *vpAzFindings) report(t *testing.T) {
	cats := make([]string, 0, len(f.count))
	for c := range f.count {
		cats = append(cats, c)
	}
	sort.Strings(cats)
	for _, c := range cats {
		if len(c) > 4 && c[:4] == "obs-" {
			t.Logf("OBSERVATION [%s]: %d case(s); first:", c, f.count[c])
		} else {
			t.Errorf("DISAGREEMENT [%s]: %d case(s); first:", c, f.count[c])
		}
		sort.Strings(f.first[c])
		for i, d := range f.first[c] {
			if i == 12 {
				break
			}
			t.Logf("    %s", d)
		}
	}
}

// Every module is exactly one of function / mode / data, the data and mode
// coordinate lists are injective and have the standard's lengths.
func TestVPOracleGeometry(t *testing.T) {
	for c := 0; c < 2; c++ {
		compact := c == 0
		maxL := 32
		if compact {
			maxL = 4
		}
		for l := 1; l <= maxL; l++ {
			size := vpAzSize(compact, l)
			kind, _ := vpAzPattern(compact, l)
			seen := make([][]int, size)
			for x := range seen {
				seen[x] = make([]int, size)
			}
			mx, my := vpAzModeCoords(compact, l)
			dx, dy := vpAzDataCoords(compact, l)
			wantMode := 40
			base := 14 + 4*l
			if compact {
				wantMode = 28
				base = 11 + 4*l
			}
			if len(mx) != wantMode || len(dx) != vpAzTotalBits(compact, l) || len(vpAzAxis(compact, l)) != base {
				t.Errorf("compact=%v layers=%d: mode %d data %d axis %d", compact, l, len(mx), len(dx), len(vpAzAxis(compact, l)))
			}
			for i := range mx {
				if kind[mx[i]][my[i]] != vpAzKindMode {
					t.Errorf("compact=%v layers=%d: mode bit %d on kind %d", compact, l, i, kind[mx[i]][my[i]])
				}
				seen[mx[i]][my[i]]++
			}
			for i := range dx {
				if kind[dx[i]][dy[i]] != vpAzKindData {
					t.Errorf("compact=%v layers=%d: data bit %d on kind %d", compact, l, i, kind[dx[i]][dy[i]])
				}
				seen[dx[i]][dy[i]]++
			}
			for x := 0; x < size; x++ {
				for y := 0; y < size; y++ {
					want := 1
					if kind[x][y] == vpAzKindFunc {
						want = 0
					}
					if seen[x][y] != want {
						t.Errorf("compact=%v layers=%d: module (%d,%d) kind %d covered %d times", compact, l, x, y, kind[x][y], seen[x][y])
					}
				}
			}
			// cross-check with the library's own idea of capacity / word size
			if totalBitsInLayer(l, compact) != vpAzTotalBits(compact, l) {
				t.Errorf("DISAGREEMENT totalBits compact=%v layers=%d: library %d oracle %d", compact, l, totalBitsInLayer(l, compact), vpAzTotalBits(compact, l))
			}
			if word_size[l] != vpAzWordSize(l) {
				t.Errorf("DISAGREEMENT wordSize layers=%d: library %d oracle %d", l, word_size[l], vpAzWordSize(l))
			}
		}
	}
}

// vpAzStuff against the library's stuffBits, and the unstuff round trip.
func TestVPOracleStuff(t *testing.T) {
	rnd := rand.New(rand.NewSource(1))
	for _, ws := range []int{6, 8, 10, 12} {
		for iter := 0; iter < 4000; iter++ {
			n := rnd.Intn(200)
			bias := rnd.Intn(5) // 0: all zero, 1: all one, else mixtures
			bits := make([]bool, n)
			bl := new(utils.BitList)
			for i := range bits {
				switch bias {
				case 0:
					bits[i] = false
				case 1:
					bits[i] = true
				case 2:
					bits[i] = rnd.Intn(8) == 0
				case 3:
					bits[i] = rnd.Intn(8) != 0
				default:
					bits[i] = rnd.Intn(2) == 0
				}
				bl.AddBit(bits[i])
			}
			got := vpAzStuff(bits, ws)
			lib := vpAzBitsOfList(stuffBits(bl, ws))
			if !vpAzEqBits(got, lib) {
				t.Fatalf("DISAGREEMENT stuffing ws=%d bits=%v:\n library %v\n oracle  %v", ws, bits, lib, got)
			}
			if len(got)%ws != 0 {
				t.Fatalf("stuffed length %d not a multiple of %d", len(got), ws)
			}
			for w := 0; w < len(got); w += ws {
				v := vpAzBitsAt(got, w, ws)
				if v == 0 || v == 1<<uint(ws)-1 {
					t.Fatalf("stuffed word %d is %x (ws=%d, bits=%v)", w/ws, v, ws, bits)
				}
			}
			back := vpAzUnstuff(got, ws)
			if len(back) < n || !vpAzEqBits(back[:n], bits) {
				t.Fatalf("unstuff(stuff(x)) does not start with x: ws=%d x=%v back=%v", ws, bits, back)
			}
			for _, b := range back[n:] {
				if !b {
					t.Fatalf("unstuff(stuff(x)) padding is not all ones: ws=%d x=%v back=%v", ws, bits, back)
				}
			}
			if len(back)-n >= ws {
				t.Fatalf("more than a word of padding: ws=%d x=%v", ws, bits)
			}
			if !vpAzEqBits(vpAzStuff(back, ws), got) {
				t.Fatalf("stuff(unstuff(w)) != w: ws=%d x=%v", ws, bits)
			}
		}
	}
}

// vpAzRS produces codewords with zero syndromes (two independent computations
// of the same code: LFSR division vs. evaluation at the roots), and a single
// corrupted word is detected.
func TestVPOracleRS(t *testing.T) {
	rnd := rand.New(rand.NewSource(2))
	for _, ws := range []int{4, 6, 8, 10, 12} {
		for iter := 0; iter < 200; iter++ {
			q := 1 << uint(ws)
			n := 1 + rnd.Intn(q-2)
			if n > 300 {
				n = 1 + rnd.Intn(300)
			}
			k := 1 + rnd.Intn(n)
			if k == n {
				k = n - 1
			}
			if k < 1 {
				continue
			}
			words := make([]int, k)
			for i := range words {
				words[i] = rnd.Intn(q)
			}
			cw := append(append([]int{}, words...), vpAzRS(words, ws, n-k)...)
			if !vpAzSyndromesZero(cw, ws, n-k) {
				t.Fatalf("ws=%d n=%d k=%d: syndromes of vpAzRS codeword are not zero", ws, n, k)
			}
			cw[rnd.Intn(n)] ^= 1 + rnd.Intn(q-1)
			if vpAzSyndromesZero(cw, ws, n-k) {
				t.Fatalf("ws=%d n=%d k=%d: corrupted codeword has zero syndromes", ws, n, k)
			}
		}
	}
}

// vpAzDecode inverts the library's high-level encoder.
func TestVPOracleDecodeHighLevel(t *testing.T) {
	var f vpAzFindings
	check := func(name string, data []byte) {
		bits := vpAzBitsOfList(highlevelEncode(data))
		got, ok := vpAzDecode(bits)
		if !ok || !bytes.Equal(got, data) {
			f.add("highlevel-decode", fmt.Sprintf("%s data=%s: decoded ok=%v %s", name, vpAzShow(data), ok, vpAzShow(got)))
		}
		// the same with every possible amount of trailing one-padding
		for pad := 1; pad < 12; pad++ {
			p := append(append([]bool{}, bits...), make([]bool, pad)...)
			for i := len(bits); i < len(p); i++ {
				p[i] = true
			}
			got, ok := vpAzDecode(p)
			if !ok || !bytes.Equal(got, data) {
				f.add("highlevel-decode-padded", fmt.Sprintf("%s data=%s pad=%d: decoded ok=%v %s", name, vpAzShow(data), pad, ok, vpAzShow(got)))
			}
		}
	}
	for _, c := range vpAzPayloads() {
		check(c.name, c.data)
	}
	rnd := rand.New(rand.NewSource(3))
	alpha := []byte("AB ab01.,:!\r\n\x01@\x80\xff")
	for iter := 0; iter < 3000; iter++ {
		b := make([]byte, rnd.Intn(40))
		for i := range b {
			b[i] = alpha[rnd.Intn(len(alpha))]
		}
		check("random", b)
	}
	f.report(t)
}

// Hand-made streams for decoder features the library's encoder may not emit.
func TestVPOracleDecodeHandmade(t *testing.T) {
	enc := func(parts ...[2]int) []bool { // {value, width}
		var out []bool
		for _, p := range parts {
			for i := p[1] - 1; i >= 0; i-- {
				out = append(out, (p[0]>>uint(i))&1 == 1)
			}
		}
		return out
	}
	tests := []struct {
		name string
		bits []bool
		want string
		ok   bool
	}{
		{"upper A", enc([2]int{2, 5}), "A", true},
		{"L/L a U/S B c", enc([2]int{28, 5}, [2]int{2, 5}, [2]int{28, 5}, [2]int{3, 5}, [2]int{4, 5}), "aBc", true},
		{"D/L 1 P/S ! 2 U/S Z 3 U/L A", enc([2]int{30, 5}, [2]int{3, 4}, [2]int{0, 4}, [2]int{6, 5}, [2]int{4, 4}, [2]int{15, 4}, [2]int{27, 5}, [2]int{5, 4}, [2]int{14, 4}, [2]int{2, 5}), "1!2Z3A", true},
		{"M/L ^A @ P/L ! U/L B", enc([2]int{29, 5}, [2]int{2, 5}, [2]int{20, 5}, [2]int{30, 5}, [2]int{6, 5}, [2]int{31, 5}, [2]int{3, 5}), "\x01@!B", true},
		{"P/S pairs", enc([2]int{0, 5}, [2]int{2, 5}, [2]int{0, 5}, [2]int{3, 5}, [2]int{0, 5}, [2]int{4, 5}, [2]int{0, 5}, [2]int{5, 5}, [2]int{2, 5}), "\r\n. , : A", true},
		{"B/S 2 bytes then A", enc([2]int{31, 5}, [2]int{2, 5}, [2]int{0x80, 8}, [2]int{0xff, 8}, [2]int{2, 5}), "\x80\xffA", true},
		{"B/S long form 31 bytes", append(enc([2]int{31, 5}, [2]int{0, 5}, [2]int{0, 11}), append(vpAzBitsOfWords(make([]int, 31), 8), enc([2]int{3, 5})...)...), string(make([]byte, 31)) + "B", true},
		{"FLG(0)", enc([2]int{0, 5}, [2]int{0, 5}, [2]int{0, 3}), "", false},
		{"incomplete trailing code", enc([2]int{2, 5}, [2]int{1, 3}), "A", true},
	}
	for _, tc := range tests {
		got, ok := vpAzDecode(tc.bits)
		if ok != tc.ok || string(got) != tc.want {
			t.Errorf("%s: got %q ok=%v, want %q ok=%v", tc.name, got, ok, tc.want, tc.ok)
		}
	}
	// start in another mode, report the final mode
	if got, m, ok := vpAzDecodeFrom(enc([2]int{5, 4}, [2]int{15, 4}, [2]int{2, 5}, [2]int{13, 4}), vpAzDigit); !ok || string(got) != "3A." || m != vpAzDigit {
		t.Errorf("from Digit: got %q mode %d ok=%v", got, m, ok)
	}
	if got, m, ok := vpAzDecodeFrom(enc([2]int{6, 5}, [2]int{31, 5}, [2]int{29, 5}, [2]int{2, 5}), vpAzPunct); !ok || string(got) != "!\x01" || m != vpAzMixed {
		t.Errorf("from Punct: got %q mode %d ok=%v", got, m, ok)
	}
}

// The main validation: real Encode vs. reference reader and reference matrix.
func TestVPOracleEncodeRead(t *testing.T) {
	var f vpAzFindings
	eccs := []int{0, 5, 23, 33, 50, 90}
	var requests []int
	requests = append(requests, 0, -1, -2, -3, -4)
	for l := 1; l <= 32; l++ {
		requests = append(requests, l)
	}
	autoOrder := []int{-1, -2, -3, -4}
	for l := 4; l <= 32; l++ {
		autoOrder = append(autoOrder, l)
	}
	nOK, nErr := 0, 0
	types := map[string]int{}
	minPct := map[int]int{}
	for _, e := range eccs {
		minPct[e] = 1000
	}
	var mu sync.Mutex // protects the statistics above
	var wg sync.WaitGroup
	jobs := make(chan vpAzCase)
	for w := 0; w < 16; w++ {
		wg.Add(1)
		go func() {
			defer wg.Done()
			for pc := range jobs {
				vpAzCheckPayload(pc, eccs, requests, autoOrder, &f, func(ok bool, typ string, ecc, pct int) {
					mu.Lock()
					defer mu.Unlock()
					if !ok {
						nErr++
						return
					}
					nOK++
					if typ != "" {
						types[typ]++
						if pct < minPct[ecc] {
							minPct[ecc] = pct
						}
					}
				})
			}
		}()
	}
	for _, pc := range vpAzPayloads() {
		jobs <- pc
	}
	close(jobs)
	wg.Wait()
	// invalid layer requests
	for _, req := range []int{-5, -6, 33, 34, 100, -100} {
		if bc, err := Encode([]byte("A"), 33, req); err == nil {
			f.add("invalid-layers-accepted", fmt.Sprintf("layers=%d gives a symbol of size %d", req, bc.Bounds().Dx()))
		}
	}
	t.Logf("symbols checked: %d (Encode errors: %d)", nOK, nErr)
	keys := make([]string, 0, len(types))
	for k := range types {
		keys = append(keys, k)
	}
	sort.Strings(keys)
	for _, k := range keys {
		t.Logf("  %s: %d symbols", k, types[k])
	}
	for _, e := range eccs {
		t.Logf("  requested ecc %d%%: smallest observed share of check words %d%%", e, minPct[e])
	}
	f.report(t)
}

// vpAzPatchOuterGrid handles full symbols whose outermost reference grid
// line lies directly inside the outermost data row (half the base size minus
// one is a multiple of 15). If, on those grid lines, the image differs from
// the reference pattern only by dark modules being light, the modules are
// repaired. Returns the layer count, the offset of the lines and the number
// of repaired modules.
func vpAzPatchOuterGrid(img [][]bool) (layers, offset, repaired int) {
	size := len(img)
	for l := 1; l <= 32; l++ {
		half := (14+4*l)/2 - 1
		if vpAzSize(false, l) != size || half%15 != 0 {
			continue
		}
		if img[size/2-5][size/2-5] { // compact core
			continue
		}
		m := 16 * (half / 15)
		c := size / 2
		_, dark := vpAzPattern(false, l)
		var px, py []int
		for x := 0; x < size; x++ {
			for y := 0; y < size; y++ {
				if vpAzAbs(x-c) != m && vpAzAbs(y-c) != m {
					continue
				}
				if img[x][y] == dark[x][y] {
					continue
				}
				if img[x][y] {
					return l, m, 0 // an extra dark module: not this defect
				}
				px, py = append(px, x), append(py, y)
			}
		}
		for i := range px {
			img[px[i]][py[i]] = true
		}
		return l, m, len(px)
	}
	return 0, 0, 0
}

// vpAzCheckPayload runs all checks for one payload over all ecc / layer
// requests. stat is called once per Encode call.
func vpAzCheckPayload(pc vpAzCase, eccs, requests, autoOrder []int, f *vpAzFindings, stat func(ok bool, typ string, ecc, pct int)) {
	hl := vpAzBitsOfList(highlevelEncode(pc.data))
	for _, ecc := range eccs {
		okSize := map[int]int{} // request -> size of the symbol produced
		for _, req := range requests {
			id := fmt.Sprintf("payload %s data=%s ecc=%d layers=%d", pc.name, vpAzShow(pc.data), ecc, req)
			bc, err := Encode(pc.data, ecc, req)
			if err != nil {
				stat(false, "", ecc, 0)
				continue
			}
			img, bad := vpAzImage(bc)
			if bad != "" {
				f.add("image", id+": "+bad)
				stat(true, "", ecc, 0)
				continue
			}
			okSize[req] = len(img)
			if bc.Content() != string(pc.data) {
				f.add("content", id+": Content() differs from payload")
			}
			// (b) explicit layer request honoured
			if req != 0 {
				want := vpAzSize(req < 0, vpAzAbs(req))
				if len(img) != want {
					f.add("b-size", fmt.Sprintf("%s: size %d, want %d", id, len(img), want))
				}
			}
			// Known defect: the outermost reference grid lines are missing in
			// full symbols with 12 and 27 layers. Record it, repair the image
			// and go on with the remaining checks.
			if l, m, n := vpAzPatchOuterGrid(img); n > 0 {
				f.add("grid-line-missing", fmt.Sprintf("%s: full symbol, %d layers, size %d: reference grid lines at offset +-%d from the centre are absent: %d modules that must be dark are light", id, l, len(img), m, n))
			}
			// (a) reference reader
			got, compact, layers, dataWords, why := vpAzReadWhy(img)
			if why != vpAzOK {
				reasons := []string{"ok", "function-patterns", "mode-message-rs", "mode-message-layers", "mode-message-word-count-exceeds-capacity", "data-rs", "data-word-all-zeros-or-ones", "highlevel-decode"}
				f.add("a-read-fails-"+reasons[why], fmt.Sprintf("%s: size %d, read as compact=%v layers=%d dataWords=%d", id, len(img), compact, layers, dataWords))
				stat(true, "", ecc, 0)
				continue
			}
			if !bytes.Equal(got, pc.data) {
				f.add("a-payload", fmt.Sprintf("%s: read %s", id, vpAzShow(got)))
			}
			if req != 0 && (compact != (req < 0) || layers != vpAzAbs(req)) {
				f.add("b-type", fmt.Sprintf("%s: symbol is compact=%v layers=%d", id, compact, layers))
			}
			// (c) rebuild from what was read
			mode := vpAzReadMode(img, compact, layers)
			bits := vpAzReadData(img, compact, layers)
			if eq, d := vpAzEqImg(img, vpAzMatrix(compact, layers, mode, bits)); !eq {
				f.add("c-rebuild", id+": "+d)
			}
			// (d) mode message
			if !vpAzEqBits(mode, vpAzModeMessage(compact, layers, dataWords)) {
				f.add("d-mode-message", fmt.Sprintf("%s: compact=%v layers=%d dataWords=%d: library %v", id, compact, layers, dataWords, mode))
			}
			// (e) check words, (f) start padding
			ws := vpAzWordSize(layers)
			total := vpAzTotalBits(compact, layers)
			pad, nWords := total%ws, total/ws
			words := vpAzWordsOfBits(bits, pad, ws, nWords)
			checkE := func() {
				check := vpAzRS(words[:dataWords], ws, nWords-dataWords)
				for i := range check {
					if check[i] != words[dataWords+i] {
						f.add("e-check-words", fmt.Sprintf("%s: check word %d library %x oracle %x", id, i, words[dataWords+i], check[i]))
						break
					}
				}
			}
			for i := 0; i < pad; i++ {
				if bits[i] {
					f.add("f-start-pad", fmt.Sprintf("%s: start padding bit %d is set", id, i))
					break
				}
			}
			// (g) data words are the stuffed high-level bits
			stuffed := vpAzStuff(hl, ws)
			if !vpAzEqBits(stuffed, bits[pad:pad+dataWords*ws]) {
				f.add("g-stuffed-data", fmt.Sprintf("%s: data region differs from vpAzStuff(highlevel bits): %d vs %d bits", id, dataWords*ws, len(stuffed)))
				checkE()
			} else {
				// (h) complete independent construction from the high-level
				// bits; this includes (e): the check words are those of vpAzRS
				sw := vpAzWordsOfBits(stuffed, 0, ws, len(stuffed)/ws)
				full := vpAzMatrix(compact, layers, vpAzModeMessage(compact, layers, len(sw)), vpAzMessage(compact, layers, sw))
				if eq, d := vpAzEqImg(img, full); !eq {
					f.add("h-full-construction", id+": "+d)
					checkE()
				}
			}
			// (k) observed error correction share
			pct := 100 * (nWords - dataWords) / nWords
			stat(true, fmt.Sprintf("compact=%v layers=%02d", compact, layers), ecc, pct)
			if 100*(nWords-dataWords) < ecc*nWords {
				f.add(fmt.Sprintf("obs-ecc-share-below-request-%d", ecc), fmt.Sprintf("%s: %d check words of %d (%d%%)", id, nWords-dataWords, nWords, pct))
			}
			// ISO/IEC 24778: compact symbols carry at most 64 data words, full 2048
			// and at least 3 check words are expected.
			if nWords-dataWords < 3 {
				f.add("obs-fewer-than-3-check-words", fmt.Sprintf("%s: %d check words", id, nWords-dataWords))
			}
		}
		// (l) automatic selection = first explicit request that succeeds in
		// the order C1..C4, F4..F32
		first := 0
		for _, r := range autoOrder {
			if _, ok := okSize[r]; ok {
				first = r
				break
			}
		}
		autoSize, autoOK := okSize[0]
		if (first != 0) != autoOK {
			f.add("l-auto-vs-explicit", fmt.Sprintf("payload %s data=%s ecc=%d: automatic ok=%v but first explicit success is %d", pc.name, vpAzShow(pc.data), ecc, autoOK, first))
		} else if autoOK && autoSize != okSize[first] {
			f.add("l-auto-vs-explicit", fmt.Sprintf("payload %s data=%s ecc=%d: automatic size %d, first explicit success %d has size %d", pc.name, vpAzShow(pc.data), ecc, autoSize, first, okSize[first]))
		}
	}
}
