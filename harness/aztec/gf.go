package aztec

import "github.com/boombuler/barcode/utils"

// ISO/IEC 24778 field polynomials by word size.
func vpAztecPoly(wordSize int) int {
	switch wordSize {
	case 4:
		return 0x13
	case 6:
		return 0x43
	case 8:
		return 0x12D
	case 10:
		return 0x409
	}
	return 0x1069
}

func vpAztecField() (*utils.GaloisField, int) {
	ws := vpConfig("ws")
	gf := getGF(ws)
	vpAssert(gf != nil, "getGF returns a field for every Aztec word size")
	vpAssert(gf.Size == 1<<uint(ws), "field size is 2^wordSize")
	vpAssert(gf.Base == 1, "Aztec Reed-Solomon uses generator base 1")
	return gf, vpAztecPoly(ws)
}

func VP_GF_tables() { gf, pp := vpAztecField(); utils.VPCheckTables(gf, pp) }
func VP_GF_mul()    { gf, pp := vpAztecField(); utils.VPCheckMul(gf, pp) }
func VP_GF_mulsym() { gf, pp := vpAztecField(); utils.VPCheckMulSym(gf, pp) }
func VP_GF_inv()    { gf, pp := vpAztecField(); utils.VPCheckInv(gf, pp) }
func VP_GF_div()    { gf, pp := vpAztecField(); utils.VPCheckDiv(gf, pp) }

func VP_RS_encode() {
	gf, pp := vpAztecField()
	utils.VPCheckEncode(utils.NewReedSolomonEncoder(gf), pp)
}
func VP_RS_cache() {
	ws := vpConfig("ws")
	utils.VPCheckCache(func() *utils.ReedSolomonEncoder { return utils.NewReedSolomonEncoder(getGF(ws)) }, vpAztecPoly(ws))
}
