package term

import (
	"math/rand"
	"testing"
)

// reference semantics, independent of the simplifier
type rv struct {
	w int
	v uint64
}

func TestRandomTerms(t *testing.T) {
	rng := rand.New(rand.NewSource(1))
	for iter := 0; iter < 5000; iter++ {
		b := NewB()
		m := NewModel()
		widths := []int{1, 8, 32, 64}
		var nodes []*Node
		var vals []rv
		var bnodes []*Node
		var bvals []bool
		addBV := func(n *Node, v uint64) {
			v &= mask(n.W)
			nodes = append(nodes, n)
			vals = append(vals, rv{n.W, v})
		}
		addB := func(n *Node, v bool) {
			bnodes = append(bnodes, n)
			bvals = append(bvals, v)
		}
		for i := 0; i < 4; i++ {
			w := widths[rng.Intn(len(widths))]
			var v uint64
			switch rng.Intn(3) {
			case 0:
				v = rng.Uint64()
			case 1:
				v = uint64(rng.Intn(300))
			default:
				v = uint64(int64(-rng.Intn(5)))
			}
			v &= mask(w)
			name := string(rune('a' + i))
			m.Vars[name] = v
			addBV(b.Var(name, w), v)
		}
		m.Vars["p"] = uint64(rng.Intn(2))
		addB(b.Var("p", 0), m.Vars["p"] == 1)
		pick := func(w int) (int, bool) {
			var c []int
			for i, n := range nodes {
				if n.W == w {
					c = append(c, i)
				}
			}
			if len(c) == 0 {
				return 0, false
			}
			return c[rng.Intn(len(c))], true
		}
		for step := 0; step < 25; step++ {
			w := widths[rng.Intn(len(widths))]
			i, ok := pick(w)
			if !ok {
				continue
			}
			j, _ := pick(w)
			if rng.Intn(3) == 0 {
				// constant operand
				c := uint64(rng.Intn(70))
				if rng.Intn(4) == 0 {
					c = rng.Uint64()
				}
				addBV(b.Const(w, c), c)
				j = len(nodes) - 1
			}
			x, y := nodes[i], nodes[j]
			xv, yv := vals[i].v, vals[j].v
			sxv, syv := sx(xv, w), sx(yv, w)
			switch rng.Intn(27) {
			case 0:
				addBV(b.Add(x, y), xv+yv)
			case 1:
				addBV(b.Sub(x, y), xv-yv)
			case 2:
				addBV(b.Mul(x, y), xv*yv)
			case 3:
				if yv != 0 {
					addBV(b.UDiv(x, y), xv/yv)
				} else {
					addBV(b.UDiv(x, y), mask(w))
				}
			case 4:
				if yv != 0 {
					addBV(b.URem(x, y), xv%yv)
				} else {
					addBV(b.URem(x, y), xv)
				}
			case 5:
				if syv != 0 && syv != -1 {
					addBV(b.SDiv(x, y), uint64(sxv/syv))
				}
			case 6:
				if syv != 0 && syv != -1 {
					addBV(b.SRem(x, y), uint64(sxv%syv))
				}
			case 7:
				addBV(b.And(x, y), xv&yv)
			case 8:
				addBV(b.Or(x, y), xv|yv)
			case 9:
				addBV(b.Xor(x, y), xv^yv)
			case 10:
				addBV(b.Not(x), ^xv)
			case 11:
				addBV(b.Neg(x), -xv)
			case 12:
				if yv >= uint64(w) {
					addBV(b.Shl(x, y), 0)
				} else {
					addBV(b.Shl(x, y), xv<<yv)
				}
			case 13:
				if yv >= uint64(w) {
					addBV(b.LShr(x, y), 0)
				} else {
					addBV(b.LShr(x, y), xv>>yv)
				}
			case 14:
				s := yv
				if s >= uint64(w) {
					s = uint64(w - 1)
				}
				addBV(b.AShr(x, y), uint64(sxv>>s))
			case 15:
				if w > 1 {
					lo := rng.Intn(w)
					hi := lo + rng.Intn(w-lo)
					addBV(b.Extract(x, hi, lo), xv>>uint(lo)&mask(hi-lo+1))
				}
			case 16:
				if w < 64 {
					nw := widths[rng.Intn(len(widths))]
					if nw > w {
						addBV(b.ZExt(x, nw), xv)
					}
				}
			case 17:
				if w < 64 {
					nw := widths[rng.Intn(len(widths))]
					if nw > w {
						addBV(b.SExt(x, nw), uint64(sxv))
					}
				}
			case 18:
				k := rng.Intn(len(bnodes))
				if bvals[k] {
					addBV(b.Ite(bnodes[k], x, y), xv)
				} else {
					addBV(b.Ite(bnodes[k], x, y), yv)
				}
			case 19:
				addB(b.Eq(x, y), xv == yv)
			case 20:
				addB(b.Ult(x, y), xv < yv)
			case 21:
				addB(b.Ule(x, y), xv <= yv)
			case 22:
				addB(b.Slt(x, y), sxv < syv)
			case 23:
				addB(b.Sle(x, y), sxv <= syv)
			case 24:
				k, l := rng.Intn(len(bnodes)), rng.Intn(len(bnodes))
				switch rng.Intn(5) {
				case 0:
					addB(b.BAnd(bnodes[k], bnodes[l]), bvals[k] && bvals[l])
				case 1:
					addB(b.BOr(bnodes[k], bnodes[l]), bvals[k] || bvals[l])
				case 2:
					addB(b.BXor(bnodes[k], bnodes[l]), bvals[k] != bvals[l])
				case 3:
					addB(b.BNot(bnodes[k]), !bvals[k])
				case 4:
					q := rng.Intn(len(bnodes))
					r := bvals[l]
					if bvals[q] {
						r = bvals[k]
					}
					addB(b.Ite(bnodes[q], bnodes[k], bnodes[l]), r)
				}
			case 25:
				k := rng.Intn(len(bnodes))
				addBV(b.B2V(bnodes[k], w), b2u(bvals[k]))
			case 26:
				if w == 8 {
					addBV(b.Concat(x, y), xv<<8|yv)
				}
			}
		}
		ev := NewEvaluator(m)
		for i, n := range nodes {
			got := ev.Eval(n)
			want := vals[i].v & mask(n.W)
			if got != want {
				t.Fatalf("iter %d node %d (op %d w %d): eval %d want %d", iter, i, n.Op, n.W, got, want)
			}
			if want < n.ULo || want > n.UHi {
				t.Fatalf("iter %d node %d (op %d w %d): value %d outside unsigned interval [%d,%d]", iter, i, n.Op, n.W, want, n.ULo, n.UHi)
			}
			if s := sx(want, n.W); s < n.SLo || s > n.SHi {
				t.Fatalf("iter %d node %d (op %d w %d): value %d outside signed interval [%d,%d]", iter, i, n.Op, n.W, s, n.SLo, n.SHi)
			}
			if want&n.KZ != 0 {
				t.Fatalf("iter %d node %d (op %d w %d): value %x violates known zeros %x", iter, i, n.Op, n.W, want, n.KZ)
			}
			for k := 0; k < n.W; k += 1 + rng.Intn(7) {
				if ev.Bool(b.BitOf(n, k)) != ((want>>uint(k))&1 == 1) {
					t.Fatalf("iter %d node %d (op %d w %d): BitOf(%d) wrong", iter, i, n.Op, n.W, k)
				}
			}
		}
		for i, n := range bnodes {
			if ev.Bool(n) != bvals[i] {
				t.Fatalf("iter %d bool node %d (op %d): eval %v want %v", iter, i, n.Op, ev.Bool(n), bvals[i])
			}
		}
	}
}

func TestMux(t *testing.T) {
	b := NewB()
	idx := b.Var("i", 64)
	tab := make([]*Node, 13)
	for i := range tab {
		tab[i] = b.Const(8, uint64(i*7+3))
	}
	mx := b.Mux(idx, 0, tab)
	for i := range tab {
		m := NewModel()
		m.Vars["i"] = uint64(i)
		if got := NewEvaluator(m).Eval(mx); got != uint64(i*7+3) {
			t.Fatalf("mux[%d] = %d", i, got)
		}
	}
}
