package aztec

import (
	"image"
	"image/color"

	"github.com/boombuler/barcode"
	"github.com/boombuler/barcode/utils"
)

// C03 / C10 / C11 / C12 / C13 / C15 harnesses for Aztec Code. Reference model: oracle_aztec.go.

var (
	_ = image.Rect
	_ color.Color
	_ barcode.Barcode
)

type vpCol struct{ id int }

func (c vpCol) RGBA() (r, g, b, a uint32) { return uint32(c.id), 0, 0, 0xffff }

func vpBitsOf(bl *utils.BitList) []bool {
	out := make([]bool, bl.Len())
	for i := range out {
		out[i] = bl.GetBit(i)
	}
	return out
}

func vpAzPrefix(k int) string {
	switch k {
	case 1:
		return "ab"
	case 2:
		return "12"
	case 3:
		return "\x01@"
	case 4:
		return "A!?"
	case 5:
		return "\x80\x81"
	case 6:
		return "a. b"
	case 7:
		return "9\r\n"
	case 8:
		return "<=>?[]{}" // long enough that the cheapest state is latched to Punct
	case 9:
		return "0123456789" // ... to Digit
	case 10:
		return "\x01\x02\x03\x04\x05\x06" // ... to Mixed
	case 11:
		return "abcdefgh" // ... to Lower
	case 12:
		return "A. B, C: " // punctuation pairs
	}
	return ""
}

// MAPORDER-az (C15): the high-level encoding does not depend on the iteration order of any map
// (Go randomises it per loop): the same payload encoded under ascending and descending key order
// gives the same bit stream.
func VP_AZ_maporder() {
	n := vpConfig("n")
	sym := vpBytes("d", n)
	data := append([]byte(vpAzPrefix(vpConfig("prefix"))), sym...)
	a := vpBitsOf(highlevelEncode(data))
	for r := 0; r < vpNativeRepeat(300); r++ {
		vpMapOrder(true)
		b := vpBitsOf(highlevelEncode(data))
		vpMapOrder(false)
		vpAssert(len(a) == len(b), "same stream length under either map iteration order")
		if len(a) == len(b) {
			for i := range a {
				vpAssert(a[i] == b[i], "same bit stream under either map iteration order")
			}
		}
	}
	vpCover("reached", true)
}

// AZ-A: the high-level encoder on a concrete prefix (which leaves the encoder in a known mode
// mix) followed by symbolic bytes, read back by the reference decoder.
func VP_AZ_hl() {
	n := vpConfig("n")
	prefix := vpAzPrefix(vpConfig("prefix"))
	sym := vpBytes("d", n)
	if vpConfig("class") == 1 { // binary run: bytes that no mode can express
		for i := 0; i < n; i++ {
			vpAssume(sym[i] >= 0x80)
		}
	}
	data := append([]byte(prefix), sym...)
	given := make([]byte, len(data))
	copy(given, data)
	bits := vpBitsOf(highlevelEncode(data))
	for i := range data {
		vpAssert(data[i] == given[i], "the payload is not modified")
	}
	out, ok := vpAzDecode(bits)
	vpAssert(ok, "the bit stream is a well-formed Upper/Lower/Mixed/Punct/Digit/Binary-shift sequence")
	vpAssert(len(out) == len(given), "the reader sees as many bytes as were encoded")
	if ok && len(out) == len(given) {
		for i := range given {
			vpAssert(out[i] == given[i], "decoding the mode-switching stream yields the payload byte for byte")
		}
	}
	vpCover("reached", true)
}

// AZ-B: bit stuffing of symbolic bits
func VP_AZ_stuff() {
	ws := vpConfig("ws")
	n := vpConfig("n")
	in := new(utils.BitList)
	raw := make([]bool, n)
	for i := 0; i < n; i++ {
		raw[i] = vpBool("b", i)
		in.AddBit(raw[i])
	}
	out := vpBitsOf(stuffBits(in, ws))
	want := vpAzStuff(raw, ws)
	if n == 0 {
		// an empty message is one word of padding (a symbol carries at least one data word)
		want = make([]bool, ws)
		for i := 0; i < ws-1; i++ {
			want[i] = true
		}
	}
	vpAssert(len(out) == len(want), "stuffed length")
	vpAssert(len(out)%ws == 0, "whole words")
	if len(out) == len(want) {
		for i := range out {
			vpAssert(out[i] == want[i], "stuffing inserts the complementary bit after wordSize-1 equal bits and pads the last word with ones")
		}
	}
	for w := 0; w+ws <= len(out); w += ws {
		allZero, allOne := true, true
		for k := 0; k < ws; k++ {
			allZero = allZero && !out[w+k]
			allOne = allOne && out[w+k]
		}
		vpAssert(!allZero && !allOne, "no data word is all zeros or all ones")
	}
	vpCover("reached", true)
}

// AZ-D: mode message for every symbol type and word count (concrete arguments)
func VP_AZ_modemsg() {
	compact := vpConfig("compact") == 1
	layers := vpConfig("layers")
	maxw := 64
	if !compact {
		maxw = 2048
	}
	step := vpConfig("step")
	for words := 1; words <= maxw; words += step {
		got := vpBitsOf(generateModeMessage(compact, layers, words))
		want := vpAzModeMessage(compact, layers, words)
		same := len(got) == len(want)
		for i := 0; same && i < len(want); i++ {
			same = got[i] == want[i]
		}
		vpAssert(same, "mode message: layers-1, data words-1, Reed-Solomon over GF(16) (28 / 40 bits)")
	}
	vpCover("reached", true)
}

// value-preserving stand-in is not needed here: the real Reed-Solomon encoder runs behind the
// Encode summary. AZ-D check words: symbolic data words of a symbol type.
func VP_AZ_checkwords() {
	compact := vpConfig("compact") == 1
	layers := vpConfig("layers")
	nw := vpConfig("words")
	ws := vpAzWordSize(layers)
	total := vpAzTotalBits(compact, layers)
	vpAssert(word_size[layers] == ws, "word size of the layer count (6/8/10/12 bits)")
	vpAssert(totalBitsInLayer(layers, compact) == total, "bit capacity of the symbol type")
	words := make([]int, nw)
	in := new(utils.BitList)
	stride := vpConfig("stride") // every stride-th data word is symbolic, the others are fixed (keeps the XOR forms short in big symbols)
	for i := 0; i < nw; i++ {
		if i%stride == 0 {
			words[i] = vpIntRange(vpIdx("w", i), 1, (1<<uint(ws))-2) // stuffed words are never all zeros / all ones
		} else {
			words[i] = 1 + (i*37)%((1<<uint(ws))-2)
		}
		in.AddBits(words[i], byte(ws))
	}
	got := vpBitsOf(generateCheckWords(in, total, ws))
	want := vpAzMessage(compact, layers, words)
	vpAssert(len(got) == len(want) && len(got) == total, "message = start padding + data words + check words fills the symbol")
	if len(got) == len(want) {
		for i := range got {
			vpAssert(got[i] == want[i], "start padding zero, data words kept, check words = Reed-Solomon remainder over the field of the word size")
		}
	}
	vpCover("reached", true)
}

func vpIdx(p string, i int) string {
	return p + string(rune('0'+i/1000%10)) + string(rune('0'+i/100%10)) + string(rune('0'+i/10%10)) + string(rune('0'+i%10))
}

// stands in for generateCheckWords at its call site in EncodeWithColor only (the call inside
// generateModeMessage stays real): totalBits arbitrary message bits, the same ones whenever it is
// asked again for the same size. In native replay the real function runs in both places.
func vpCheckWordsStub(bits *utils.BitList, totalBits, wordSize int) *utils.BitList {
	out := new(utils.BitList)
	for i := 0; i < totalBits; i++ {
		out.AddBit(vpBool("m", i))
	}
	return out
}

func vpCheckLayout(bc barcode.Barcode, compact bool, layers int, msg []bool, dataWords int, scheme barcode.ColorScheme) {
	size := vpAzSize(compact, layers)
	vpAssert(bc.Bounds() == image.Rect(0, 0, size, size), "bounds: 11+4L compact, 14+4L plus reference grid lines full range")
	if bc.Bounds().Dx() != size || bc.Bounds().Dy() != size {
		return
	}
	mode := vpAzModeMessage(compact, layers, dataWords)
	want := vpAzMatrix(compact, layers, mode, msg)
	for x := 0; x < size; x++ {
		for y := 0; y < size; y++ {
			px := bc.At(x, y)
			vpAssert((px == scheme.Foreground) == want[x][y] && (px == scheme.Background) == !want[x][y], "module: bullseye, orientation marks, mode message ring, reference grid, data layers in spiral order; colours from the scheme")
		}
	}
}

// AZ-E: drawing for arbitrary message bits, every symbol type, via an explicit layer request
func VP_AZ_layout() {
	compact := vpConfig("compact") == 1
	layers := vpConfig("layers")
	req := layers
	if compact {
		req = -layers
	}
	data := []byte{'A'}
	scheme := barcode.ColorScheme{Model: color.RGBAModel, Foreground: vpCol{1}, Background: vpCol{2}}
	bc, err := EncodeWithColor(data, 10, req, scheme)
	vpAssert(err == nil && bc != nil, "one character fits every symbol type")
	if bc == nil {
		return
	}
	// the same message bits the encoder drew (stubbed symbolically, recomputed natively)
	ws := vpAzWordSize(layers)
	stuffed := stuffBits(highlevelEncode(data), ws)
	msg := vpBitsOf(generateCheckWords(stuffed, vpAzTotalBits(compact, layers), ws))
	vpCheckLayout(bc, compact, layers, msg, stuffed.Len()/ws, scheme)
	vpAssert(bc.ColorModel() == scheme.Model, "ColorModel is the scheme's model")
	if cs, ok := bc.(barcode.BarcodeColor); ok {
		g := cs.ColorScheme()
		vpAssert(g.Model == scheme.Model && g.Foreground == scheme.Foreground && g.Background == scheme.Background, "ColorScheme() reports the scheme in force")
	} else {
		vpAssert(false, "Aztec barcodes expose their colour scheme")
	}
	md := bc.Metadata()
	vpAssert(md.CodeKind == "Aztec" && md.Dimensions == 2, "metadata says Aztec, 2D")
	vpAssert(bc.Content() == "A", "Content is the payload")
	vpCover("reached", true)
}

// vpTypeOf identifies the symbol type from its size. Full-range symbols with 1..3 layers have
// the size of compact symbols with 2..4 layers; an explicit request says which one is meant, the
// automatic choice never uses full range below 4 layers. Returns layers = 0 if the size does not
// belong to the (requested) type.
func vpTypeOf(size, req int) (bool, int) {
	if req < 0 {
		if vpAzSize(true, -req) == size {
			return true, -req
		}
		return true, 0
	}
	if req > 0 {
		if vpAzSize(false, req) == size {
			return false, req
		}
		return false, 0
	}
	for l := 1; l <= 4; l++ {
		if vpAzSize(true, l) == size {
			return true, l
		}
	}
	for l := 4; l <= 32; l++ {
		if vpAzSize(false, l) == size {
			return false, l
		}
	}
	return false, 0
}

// AZ-C: size selection, layer requests, error-correction percentage (symbolic integers)
func VP_AZ_size() {
	n := vpConfig("n")
	data := make([]byte, n)
	for i := range data {
		data[i] = 0x92 | byte(i%2)<<5 // binary payload whose bit stream never needs stuffing (10x10x10)
	}
	pct := vpIntRange("pct", vpConfig("minpct"), vpConfig("maxpct"))
	req := vpConfig("req") // 0 automatic, -4..-1 compact, 1..32 full range (others must be refused)
	bc, err := Encode(data, pct, req)
	vpAssert((bc == nil) != (err == nil), "exactly one of barcode and error is nil")
	if req < -4 || req > 32 {
		vpAssert(err != nil, "layer requests outside -4..32 are refused")
		return
	}
	bits := highlevelEncode(data).Len()
	if bc == nil {
		// refused: nothing (of the requested type) holds data + requested percentage
		vpCover("refused", true)
		return
	}
	size := bc.Bounds().Dx()
	// identify the type from the size
	compact, layers := vpTypeOf(size, req)
	vpAssert(layers > 0, "the size is one of the 4 compact + 32 full-range sizes (an explicit layer request is honoured exactly)")
	if layers == 0 {
		return
	}
	ws := vpAzWordSize(layers)
	total := vpAzTotalBits(compact, layers)
	stuffed := stuffBits(highlevelEncode(data), ws).Len()
	check := (total/ws)*ws - stuffed
	vpAssert(check >= 0, "the data words fit the symbol")
	vpAssert(check*100 >= bits*pct, "check words amount to at least the requested percentage of the data bits")
	vpCover("accepted", true)
}

// AZ-F: the public entry point end to end on a short symbolic payload, default parameters and
// explicit ones; also the snapshot property (C15): the barcode does not alias the caller's buffer.
func VP_AZ_e2e() {
	n := vpConfig("n")
	data := vpBytes("d", n)
	if vpConfig("class") == 1 {
		for i := 0; i < n; i++ {
			vpAssume(data[i] >= 0x80)
		}
	}
	given := make([]byte, n)
	copy(given, data)
	pct, req := vpConfig("pct"), vpConfig("req")
	bc, err := Encode(data, pct, req)
	vpAssert(err == nil && bc != nil, "a short payload fits")
	if bc == nil {
		return
	}
	for i := 0; i < n; i++ {
		vpAssert(data[i] == given[i], "the payload is not modified")
	}
	size := bc.Bounds().Dx()
	compact, layers := vpTypeOf(size, req)
	vpAssert(layers > 0, "the size is one of the standard sizes (an explicit layer request is honoured exactly)")
	if layers == 0 {
		return
	}
	ws := vpAzWordSize(layers)
	stuffed := vpAzStuff(vpBitsOf(highlevelEncode(given)), ws) // high-level stream: guarantee side is AZ-A
	if len(stuffed) == 0 {
		// an empty message is one word of padding (ones, with the stuffed zero): a symbol carries at
		// least one data word because the mode message stores the count minus one
		stuffed = make([]bool, ws)
		for i := 0; i < ws-1; i++ {
			stuffed[i] = true
		}
	}
	nw := len(stuffed) / ws
	words := vpAzWordsOfBits(stuffed, 0, ws, nw)
	msg := vpAzMessage(compact, layers, words)
	vpCheckLayout(bc, compact, layers, msg, nw, barcode.ColorScheme16)
	content := bc.Content()
	vpAssert(len(content) == n, "Content is the payload")
	for i := 0; i < n && i < len(content); i++ {
		vpAssert(content[i] == given[i], "Content is the payload")
	}
	// snapshot: overwriting the caller's buffer afterwards changes nothing
	for i := 0; i < n; i++ {
		data[i] = vpByte("later", i)
	}
	after := bc.Content()
	for i := 0; i < n && i < len(after); i++ {
		vpAssert(after[i] == given[i], "Content does not change when the caller's buffer is overwritten afterwards")
	}
	vpCover("reached", true)
}

// C15 / C16: purity
func VP_AZ_pure() {
	n := vpConfig("n")
	data := vpBytes("d", n)
	for i := 0; i < n; i++ {
		vpAssume(data[i] >= 0x80)
	}
	vpTrackGlobals()
	a, errA := Encode(data, 33, 0)
	_, _ = Encode([]byte("Some Other Text 123"), 50, 5)
	b, errB := Encode(data, 33, 0)
	vpAssert((errA == nil) == (errB == nil), "the same call succeeds or fails the same way every time")
	if errA == nil && errB == nil {
		vpAssert(a.Bounds() == b.Bounds() && a.Content() == b.Content(), "the same call returns the same barcode whatever was encoded before")
		if a.Bounds() == b.Bounds() {
			for x := 0; x < a.Bounds().Dx(); x++ {
				for y := 0; y < a.Bounds().Dy(); y++ {
					vpAssert(a.At(x, y) == b.At(x, y), "the same call returns the same pixels whatever was encoded before")
				}
			}
		}
	}
	vpAssert(vpGlobalWrites() == 0, "no package-level state is written")
	vpCover("reached", true)
}

// C13 (Aztec clause): for an automatically sized symbol, explicitly requesting any smaller
// compact or full-range size for the same payload and percentage is refused.
func VP_AZ_minimal() {
	n := vpConfig("n")
	data := make([]byte, n)
	for i := range data {
		data[i] = 0x92 | byte(i%2)<<5
	}
	pct := vpIntRange("pct", vpConfig("minpct"), vpConfig("maxpct"))
	bc, err := Encode(data, pct, 0)
	if err != nil {
		// nothing fits automatically: then no explicit request of any type may succeed either
		for _, req := range []int{-4, 4, 32} {
			b2, e2 := Encode(data, pct, req)
			vpAssert(e2 != nil && b2 == nil, "what no automatic size holds, no explicit size holds")
		}
		vpCover("nothing-fits", true)
		return
	}
	compact, layers := vpTypeOf(bc.Bounds().Dx(), 0)
	vpAssert(layers > 0, "automatic choice is a standard size")
	// order of preference: compact 1..4, full range 4..32 (full range 1..3 have the sizes of compact 2..4)
	var smaller []int
	for l := 1; l <= 4; l++ {
		if compact && l >= layers {
			break
		}
		smaller = append(smaller, -l)
	}
	if !compact {
		for l := 1; l < layers; l++ {
			smaller = append(smaller, l)
		}
	}
	for _, req := range smaller {
		b2, e2 := Encode(data, pct, req)
		vpAssert(e2 != nil && b2 == nil, "a smaller size than the automatic one is refused for the same payload and percentage")
	}
	vpCover("accepted", true)
}
