package qr

import (
	"image"
	"image/color"

	"github.com/boombuler/barcode"
	"github.com/boombuler/barcode/utils"
)

// C01 / C12 / C13 harnesses for QR Code. Reference model: oracle_qr.go.

var (
	_ = image.Rect
	_ color.Color
	_ barcode.Barcode
	_ = utils.NewBitList
)

type vpCol struct{ id int }

func (c vpCol) RGBA() (r, g, b, a uint32) { return uint32(c.id), 0, 0, 0xffff }

func vpModeOf(cfg int) encodingMode {
	switch cfg {
	case 1:
		return numericMode
	case 2:
		return alphaNumericMode
	}
	return byteMode
}

// vpRowOK: the versionInfo row equals the ISO block structure.
func vpRowOK(vi *versionInfo) bool {
	ec, g1, d1, g2, d2 := vpQRBlockSpec(int(vi.Version), int(vi.Level))
	return int(vi.ErrorCorrectionCodewordsPerBlock) == ec && int(vi.NumberOfBlocksInGroup1) == g1 && int(vi.DataCodeWordsPerBlockInGroup1) == d1 &&
		int(vi.NumberOfBlocksInGroup2) == g2 && int(vi.DataCodeWordsPerBlockInGroup2) == d2
}

// QR-S: capacity search with a symbolic bit count.
func VP_QR_smallest() {
	level := ErrorCorrectionLevel(vpConfig("level"))
	mode := vpModeOf(vpConfig("mode"))
	bits := vpIntRange("bits", 0, 1<<20)
	vi := findSmallestVersionInfo(level, mode, bits)
	// reference: smallest version whose data capacity holds mode indicator + count field + bits
	want := 0
	for v := 40; v >= 1; v-- {
		if vpQRDataCodewords(v, int(level))*8 >= bits+4+vpQRCharCountBits(v, int(mode)) {
			want = v
		}
	}
	if want == 0 {
		vpAssert(vi == nil, "content beyond version 40 has no version")
		vpCover("too-much", true)
		return
	}
	vpAssert(vi != nil, "content that fits version 40 gets a version")
	if vi == nil {
		return
	}
	want = vpConcretize(want)
	vpAssert(int(vi.Version) == want, "the smallest fitting version is chosen")
	vpAssert(vi.Level == level, "the row has the requested level")
	vpAssert(vpRowOK(vi), "block structure of the row equals ISO/IEC 18004 Table 9")
	vpAssert(vi.totalDataBytes() == vpQRDataCodewords(int(vi.Version), int(level)), "data capacity of the row")
	vpAssert(int(vi.charCountBits(mode)) == vpQRCharCountBits(int(vi.Version), int(mode)), "character count width of the version class")
	vpAssert(vi.modulWidth() == 17+4*int(vi.Version), "symbol size 17+4v")
	vpCover("v1", want == 1)
	vpCover("v40", want == 40)
	vpCover("v10", want == 10)
}

// ---------------------------------------------------------------- QR-A: bit streams of the mode encoders

func vpBitsOf(bl *utils.BitList) []bool {
	out := make([]bool, bl.Len())
	for i := range out {
		out[i] = bl.GetBit(i)
	}
	return out
}

// content of n symbolic bytes; class: 0 arbitrary bytes, 1 digits, 2 upper-case letters, 3 bytes >= 0x80 (forces byte mode under Auto)
func vpContent(n int) string {
	switch vpConfig("class") {
	case 1:
		return vpStringRange("c", n, '0', '9')
	case 2: // upper-case letters: a contiguous part of the alphanumeric set (the full set is covered by class 0 in VP_QR_stream)
		return vpStringRange("c", n, 'A', 'Z')
	case 3:
		return vpStringRange("c", n, 0x80, 0xff)
	}
	return vpString("c", n)
}

func vpAllDigits(s string) bool {
	ok := true
	for i := 0; i < len(s); i++ {
		ok = ok && s[i] >= '0' && s[i] <= '9'
	}
	return ok
}

func vpAllAlnum(s string) bool {
	ok := true
	for i := 0; i < len(s); i++ {
		ok = ok && vpQRAlnumValue(s[i]) >= 0
	}
	return ok
}

// vpCheckStream: bits is a complete, padded bit stream for content in the given mode at version/level.
func vpCheckStream(bits []bool, vi *versionInfo, content string, mode int) {
	v, l := int(vi.Version), int(vi.Level)
	total := vpQRDataCodewords(v, l)
	vpAssert(len(bits) == 8*total, "the stream fills exactly the data codewords of the version")
	if len(bits) != 8*total {
		return
	}
	m, count, payload, ok := vpQRParse(bits, v)
	vpAssert(ok, "the stream parses: mode indicator, count field, data groups in range")
	vpAssert(m == mode, "mode indicator")
	vpAssert(count == len(content), "character count")
	if ok && len(payload) == len(content) {
		for i := 0; i < len(content); i++ {
			switch mode {
			case 1:
				vpAssert(payload[i] == int(content[i]-'0'), "numeric payload is the digit string")
			case 2:
				vpAssert(payload[i] == vpQRAlnumValue(content[i]), "alphanumeric payload is the text")
			default:
				vpAssert(payload[i] == int(content[i]), "byte payload is the text")
			}
		}
	} else {
		vpAssert(len(payload) == len(content), "payload length")
	}
	used := vpQRSegmentBits(v, mode, len(content))
	vpAssert(vpQRPaddingOK(bits, used, total), "terminator, zero fill and alternating EC/11 pad codewords")
	// minimality: the previous version does not hold the segment
	if v > 1 {
		vpAssert(vpQRSegmentBits(v-1, mode, len(content)) > 8*vpQRDataCodewords(v-1, l), "no smaller version holds the content")
	}
	vpAssert(vpRowOK(vi), "block structure of the chosen row equals ISO/IEC 18004 Table 9")
}

func VP_QR_stream() {
	vpQRStream(vpConfig("n"), ErrorCorrectionLevel(vpConfig("level")), vpConfig("mode"))
}

// vpQRCapacity: the largest character count whose segment fits version v at the level (0 if none).
func vpQRCapacity(v, level, mode int) int {
	n := 0
	for vpQRSegmentBits(v, mode, n+1) <= 8*vpQRDataCodewords(v, level) {
		n++
	}
	return n
}

// QR-cap: capacity boundaries. Content of exactly the capacity of version v (delta 0) must be
// placed in version v, one character more (delta 1) in version v+1, or be rejected beyond version 40.
// The content is class-constrained (digits / upper-case letters / high bytes), its length is the
// quantity under test.
func VP_QR_boundary() {
	v, level, mode := vpConfig("v"), vpConfig("level"), vpConfig("mode")
	n := vpQRCapacity(v, level, mode) + vpConfig("delta")
	vpQRStream(n, ErrorCorrectionLevel(level), mode)
}

func vpQRStream(n int, level ErrorCorrectionLevel, modeCfg int) {
	content := vpContent(n)
	var bl *utils.BitList
	var vi *versionInfo
	var err error
	// modeCfg: 0 auto, 1 numeric, 2 alphanumeric, 4 byte
	switch modeCfg {
	case 0:
		bl, vi, err = encodeAuto(content, level)
	case 1:
		bl, vi, err = encodeNumeric(content, level)
	case 2:
		bl, vi, err = encodeAlphaNumeric(content, level)
	default:
		bl, vi, err = encodeUnicode(content, level)
	}
	// which mode must be used / is the content representable
	digits, alnum := vpAllDigits(content), vpAllAlnum(content)
	mode := modeCfg
	representable := true
	switch modeCfg {
	case 0:
		mode = 4
		if alnum {
			mode = 2
		}
		if digits {
			mode = 1
		}
	case 1:
		representable = digits
	case 2:
		representable = alnum
	}
	mode = vpConcretize(mode)
	fits := vpQRSegmentBits(40, mode, n) <= 8*vpQRDataCodewords(40, int(level))
	if !representable || !fits {
		vpAssert(err != nil && bl == nil, "content outside the mode's alphabet or beyond version 40 is rejected")
		vpCover("rejected", true)
		return
	}
	vpAssert(err == nil && bl != nil && vi != nil, "representable content is accepted")
	if bl == nil || vi == nil {
		return
	}
	vpAssert(vi.Level == level, "requested level")
	vpCheckStream(vpBitsOf(bl), vi, content, mode)
	vpCover("accepted", true)
}

// ---------------------------------------------------------------- QR-B: blocks, Reed-Solomon plumbing, interleaving

func vpRow(version int, level ErrorCorrectionLevel) *versionInfo {
	for _, vi := range versionInfos {
		if int(vi.Version) == version && vi.Level == level {
			return vi
		}
	}
	return nil
}

func VP_QR_blocks() {
	v, level := vpConfig("v"), ErrorCorrectionLevel(vpConfig("level"))
	vi := vpRow(v, level)
	vpAssert(vi != nil && vpRowOK(vi), "the table has the ISO row for this version and level")
	if vi == nil {
		return
	}
	n := vi.totalDataBytes()
	data := vpBytes("d", n)
	bl := new(utils.BitList)
	for _, b := range data {
		bl.AddByte(b)
	}
	blocks := splitToBlocks(bl.IterateBytes(), vi)
	out := blocks.interleave(vi)
	// reference
	ec, _, _, _, _ := vpQRBlockSpec(v, int(level))
	split := vpQRSplit(v, int(level), data)
	ecc := make([][]byte, len(split))
	for b := range split {
		ecc[b] = vpQRRS(split[b], ec)
	}
	want := vpQRInterleave(v, int(level), data, ecc)
	vpAssert(len(want) == vpQRTotalCodewords(v), "reference: all codewords of the version")
	vpAssert(len(out) == len(want), "the interleaved sequence has the version's total number of codewords")
	if len(out) == len(want) {
		for i := range out {
			vpAssert(out[i] == want[i], "codeword i of the final sequence: data blocks column-wise, then Reed-Solomon blocks column-wise")
		}
	}
	vpAssert(len(blocks) == len(split), "number of blocks")
	vpCover("reached", true)
}

// ---------------------------------------------------------------- QR-C: module placement for arbitrary codewords

var vpPenCount int

// vpPenaltyStub replaces (*qrcode).calcPenalty: an arbitrary penalty per candidate, so that
// every mask can win; the property must hold for whichever is chosen.
func vpPenaltyStub(q *qrcode) uint {
	vpPenCount++
	p := vpUint("penalty", vpPenCount)
	vpAssume(p < 1<<62) // the real penalty is bounded by a small multiple of the module count
	return p
}

// vpPenaltyFixed replaces calcPenalty where the mask choice is irrelevant: strictly increasing
// values, so the first candidate wins and nothing forks.
func vpPenaltyFixed(q *qrcode) uint {
	vpPenCount++
	return uint(vpPenCount)
}

func vpCheckSymbol(code *qrcode, v int, level ErrorCorrectionLevel, codewords []byte, scheme barcode.ColorScheme) {
	dim := vpQRDim(v)
	vpAssert(code.Bounds() == image.Rect(0, 0, dim, dim), "bounds are (0,0)-(17+4v,17+4v)")
	if code.dimension != dim {
		return
	}
	// format information copy 1 (around the top-left finder): bits 14..0
	fx := [15]int{0, 1, 2, 3, 4, 5, 7, 8, 8, 8, 8, 8, 8, 8, 8}
	fy := [15]int{8, 8, 8, 8, 8, 8, 8, 8, 7, 5, 4, 3, 2, 1, 0}
	word := 0
	for k := 0; k < 15; k++ {
		word <<= 1
		if code.Get(fx[k], fy[k]) {
			word |= 1
		}
	}
	mask := -1
	for m := 0; m < 8; m++ {
		if word == vpQRFormatBits(int(level), m) {
			mask = m
		}
	}
	mask = vpConcretize(mask)
	vpAssert(mask >= 0, "format information is a BCH codeword naming the requested level")
	if mask < 0 {
		return
	}
	want := vpQRMatrix(v, int(level), mask, codewords)
	for x := 0; x < dim; x++ {
		for y := 0; y < dim; y++ {
			vpAssert(code.Get(x, y) == want[x][y], "module equals the ISO/IEC 18004 layout (function patterns, format/version information, zig-zag data placement, mask)")
		}
	}
	// pixels are the scheme's colours
	px, py := vpIntRange("px", 0, dim-1), vpIntRange("py", 0, dim-1)
	c := code.At(px, py)
	vpAssert((c == scheme.Foreground) == code.Get(px, py) && (c == scheme.Background) == !code.Get(px, py), "pixels are exactly foreground (dark) or background")
	vpCover("mask-found", true)
}

func VP_QR_render() {
	v, level := vpConfig("v"), ErrorCorrectionLevel(vpConfig("level"))
	vi := vpRow(v, level)
	if vi == nil {
		vpAssert(false, "row exists")
		return
	}
	n := vpQRTotalCodewords(v)
	codewords := vpBytes("cw", n)
	scheme := barcode.ColorScheme{Model: color.RGBAModel, Foreground: vpCol{1}, Background: vpCol{2}}
	code := render(codewords, vi, scheme)
	vpAssert(code != nil, "render returns a symbol")
	if code == nil {
		return
	}
	vpCheckSymbol(code, v, level, codewords, scheme)
}

// ---------------------------------------------------------------- QR-E: the public entry point end to end

func VP_QR_e2e() {
	n := vpConfig("n")
	level := ErrorCorrectionLevel(vpConfig("level"))
	content := vpContent(n) // class 1 digits, 2 alphanumeric, 3 high bytes, 0 arbitrary (byte mode only)
	modeCfg := vpConfig("mode")
	var enc Encoding
	mode := modeCfg
	switch modeCfg {
	case 0:
		enc = Auto
		switch vpConfig("class") {
		case 1:
			mode = 1
		case 2:
			mode = 2
			vpAssume(!vpAllDigits(content)) // Auto prefers numeric for digit strings
		default:
			mode = 4
			vpAssume(!vpAllAlnum(content))
		}
	case 1:
		enc = Numeric
	case 2:
		enc = AlphaNumeric
	default:
		enc = Unicode
	}
	scheme := barcode.ColorScheme16
	var bc barcode.Barcode
	var err error
	if vpConfig("color") == 1 {
		scheme = barcode.ColorScheme{Model: color.NRGBAModel, Foreground: vpCol{1}, Background: vpCol{2}}
		bc, err = EncodeWithColor(content, level, enc, scheme)
	} else {
		bc, err = Encode(content, level, enc)
	}
	vpAssert(err == nil && bc != nil, "representable content within capacity is accepted")
	if bc == nil {
		return
	}
	vpAssert(bc.Content() == content, "Content is the text")
	md := bc.Metadata()
	vpAssert(md.CodeKind == "QR Code" && md.Dimensions == 2, "metadata says QR Code, 2D")
	vpAssert(bc.ColorModel() == scheme.Model, "ColorModel is the scheme's model")
	if cs, ok := bc.(barcode.BarcodeColor); ok {
		g := cs.ColorScheme()
		vpAssert(g.Model == scheme.Model && g.Foreground == scheme.Foreground && g.Background == scheme.Background, "ColorScheme() reports the scheme in force")
	} else {
		vpAssert(false, "QR barcodes expose their colour scheme")
	}
	code, isQR := bc.(*qrcode)
	vpAssert(isQR, "the barcode is the package's symbol type")
	if !isQR {
		return
	}
	// reference pipeline: smallest version, segment, padding, blocks, interleave
	v := 0
	for cand := 40; cand >= 1; cand-- {
		if vpQRSegmentBits(cand, mode, n) <= 8*vpQRDataCodewords(cand, int(level)) {
			v = cand
		}
	}
	vpAssert(v > 0 && code.dimension == vpQRDim(v), "the smallest version that holds the content in the (densest) mode is used")
	if v == 0 || code.dimension != vpQRDim(v) {
		return
	}
	seg, ok := vpQRSegment([]byte(content), v, mode)
	vpAssert(ok, "reference: content is representable in the mode")
	data := vpQRBitsToBytes(vpQRPad(seg, vpQRDataCodewords(v, int(level))))
	codewords := vpQRFinalCodewords(v, int(level), data)
	vpCheckSymbol(code, v, level, codewords, scheme)
	vpCover("accepted", true)
}


// ---------------------------------------------------------------- C15 / C16: purity, lock discipline, goroutine hygiene

// nothing but the generator cache (under its lock) is written in package-level state, whatever
// the content; the call succeeds or fails the same way when repeated; no goroutine is left behind.
// (Pixel equality of repeated calls is checked on concrete contents in VP_QR_repeat: with the
// penalty function stubbed to arbitrary values two calls may legitimately pick different masks.)
func VP_QR_pure() {
	n := vpConfig("n")
	content := vpContent(n)
	level := ErrorCorrectionLevel(vpConfig("level"))
	vpTrackGlobals()
	_, errA := Encode(content, level, Auto)
	_, _ = Encode("HELLO WORLD 12345", H, AlphaNumeric) // unrelated call in between
	_, errB := Encode(content, level, Auto)
	vpAssert((errA == nil) == (errB == nil), "the same call succeeds or fails the same way every time")
	vpAssert(vpGlobalWrites() == 0, "no package-level state is written outside the generator-polynomial cache lock")
	vpCover("reached", true)
}

// repeated calls on concrete contents with the real penalty function and the real Reed-Solomon cache
func VP_QR_repeat() {
	contents := []string{"", "0123456789", "HELLO WORLD", "hello, world \xff", "12345678901234567890123456789012345678901234567890"}
	content := contents[vpConfig("which")]
	level := ErrorCorrectionLevel(vpConfig("level"))
	vpTrackGlobals()
	a, errA := Encode(content, level, Auto)
	_, _ = Encode("SOMETHING ELSE 999", (level+1)%4, Auto)
	_, _ = Encode(contents[(vpConfig("which")+2)%len(contents)], H, Unicode)
	b, errB := Encode(content, level, Auto)
	vpAssert(errA == nil && errB == nil, "sample contents are accepted")
	if errA == nil && errB == nil {
		vpAssert(a.Bounds() == b.Bounds() && a.Content() == b.Content(), "the same call returns the same barcode whatever was encoded before")
		if a.Bounds() == b.Bounds() {
			for x := 0; x < a.Bounds().Dx(); x++ {
				for y := 0; y < a.Bounds().Dy(); y++ {
					vpAssert(a.At(x, y) == b.At(x, y), "the same call returns the same pixels whatever was encoded before")
				}
			}
		}
	}
	vpAssert(vpGlobalWrites() == 0, "no package-level state is written outside the generator-polynomial cache lock")
	vpCover("reached", true)
}

// the shared Reed-Solomon encoder: cache growth happens under its mutex, the mutex is released,
// results do not depend on what was requested before (concrete data; the real getPolynomial runs)
func VP_QR_rslock() {
	d1, d2 := vpConfig("d1"), vpConfig("d2")
	data := []byte{32, 91, 11, 120, 209, 114, 220, 77, 67, 64, 236, 17, 236, 17, 236, 17}
	fresh := newErrorCorrection().calcECC(data, byte(d2))
	vpTrackGlobals()
	_ = ec.calcECC(data, byte(d1))
	got := ec.calcECC(data, byte(d2))
	vpAssert(len(got) == len(fresh), "check codeword count does not depend on history")
	for i := range got {
		if i < len(fresh) {
			vpAssert(got[i] == fresh[i], "check codewords from the shared encoder equal those of a fresh encoder")
		}
	}
	vpAssert(vpGlobalWrites() == 0, "the shared generator cache is only written while its mutex is held")
	vpCover("reached", true)
}
