package spec

import "vpengine/exec"

const rsEncode = "(*github.com/boombuler/barcode/utils.ReedSolomonEncoder).Encode"
const qrPenalty = "(*github.com/boombuler/barcode/qr.qrcode).calcPenalty"

func init() {
	rsStub := "(*ReedSolomonEncoder).Encode replaced by the reference remainder of data*x^e modulo prod(x - alpha^(base+i)) (GF(2)-linear; assume side). Guarantee side: RS-enc-* obligations of C17 run the real Encode for k<=3 x e<=4 and k=1 x e<=68"
	penStub := "(*qrcode).calcPenalty replaced by an arbitrary value < 2^62 per candidate: every mask can win and the obligations hold for whichever is chosen (mask optimality is not part of the property)"
	oracle := "reference model harness/qr/oracle_qr.go written from ISO/IEC 18004 (block tables, BCH format/version words, alignment centres, placement, masks, RS, bit-stream parser), validated natively against 2886 library symbols"
	reg(&Oblig{ID: "QR-S", Pkg: "qr", Func: "VP_QR_smallest", Props: []string{"C13", "C12", "C01"},
		Desc:  "findSmallestVersionInfo with a symbolic bit count: smallest version whose data capacity holds mode indicator + count field + bits; nil beyond version 40; the row equals the ISO block structure; count-field widths; symbol size",
		Real:  []string{"qr.findSmallestVersionInfo", "(*qr.versionInfo).totalDataBytes", "(*qr.versionInfo).charCountBits", "(*qr.versionInfo).modulWidth"},
		Stubs: []string{oracle}, Bound: "bit count symbolic in 0..2^20 x 4 levels x 3 modes (all 160 table rows reached)",
		Configs: func(string, int64) []map[string]int {
			return cross(one("level", 0, 1, 2, 3), one("mode", 1, 2, 4))
		}})
	reg(&Oblig{ID: "QR-A", Pkg: "qr", Func: "VP_QR_stream", Props: []string{"C01", "C10", "C13", "C16"},
		Desc:  "mode encoders: accepted exactly when the content is in the mode's alphabet and fits version 40; the returned bit stream parses (mode indicator, count field of the version class, 10/7/4-bit, 11/6-bit or 8-bit groups) to exactly the content; terminator, zero fill, EC/11 padding; minimal version; Auto picks numeric < alphanumeric < byte",
		Real:  []string{"qr.encodeNumeric", "qr.encodeAlphaNumeric", "qr.stringToAlphaIdx (goroutine)", "qr.encodeUnicode", "qr.encodeAuto", "qr.addPaddingAndTerminator", "qr.findSmallestVersionInfo", "strconv.Atoi (interpreted)", "(*utils.BitList).AddBits/AddByte"},
		Stubs: []string{oracle, "strings.IndexRune on the constant alphanumeric charset modelled exactly", "goroutines run as coroutines; goroutine leak on any path is an obligation"},
		Bound: "content = n fully symbolic bytes: numeric n<=6, alphanumeric n<=4, byte n<=6, Auto n<=3 (quick; one more each in thorough) x 4 levels; plus class-constrained content (digits / upper-case / high bytes) at n in {7, 17, 40}",
		Configs: func(tier string, seed int64) []map[string]int {
			var out []map[string]int
			add := func(mode, top int) {
				for n := 0; n <= top; n++ {
					out = append(out, map[string]int{"n": n, "level": (n + mode) % 4, "mode": mode, "class": 0})
				}
			}
			ext := 0
			if tier == "thorough" {
				ext = 1
			}
			add(1, 6+ext)
			add(2, 4+ext)
			add(4, 6+ext)
			add(0, 3+ext)
			for _, n := range []int{7, 17, 40} {
				out = append(out, map[string]int{"n": n, "level": n % 4, "mode": 1, "class": 1}, map[string]int{"n": n, "level": (n + 1) % 4, "mode": 0, "class": 1},
					map[string]int{"n": n, "level": (n + 2) % 4, "mode": 2, "class": 2}, map[string]int{"n": n, "level": (n + 3) % 4, "mode": 4, "class": 3})
			}
			return out
		}})
	reg(&Oblig{ID: "QR-cap", Pkg: "qr", Func: "VP_QR_boundary", Props: []string{"C01", "C10", "C13", "C16"},
		Desc:  "capacity boundaries of the mode encoders: content of exactly the capacity of version v is placed in version v, one character more in version v+1 (rejected, without leaking the producer goroutine, beyond version 40); stream checked as in QR-A",
		Real:  []string{"qr.encodeNumeric", "qr.encodeAlphaNumeric", "qr.stringToAlphaIdx (goroutine)", "qr.encodeUnicode", "qr.addPaddingAndTerminator", "qr.findSmallestVersionInfo"},
		Stubs: []string{oracle, "content class-constrained (digits / upper-case letters / bytes >= 0x80): the length is the quantity under test"},
		Bound: "versions 1..5 x 4 levels x 3 modes x {capacity, capacity+1} and version 40 capacity+1 (rejection) quick; versions 1..8 thorough",
		Configs: func(tier string, seed int64) []map[string]int {
			top := 5
			if tier == "thorough" {
				top = 8 // all 40 versions were tried: > 10 min for the family (7089 symbolic digits at 40-L)
			}
			var out []map[string]int
			cls := map[int]int{1: 1, 2: 2, 4: 3}
			for _, mode := range []int{1, 2, 4} {
				for l := 0; l < 4; l++ {
					for v := 1; v <= top; v++ {
						for d := 0; d <= 1; d++ {
							out = append(out, map[string]int{"v": v, "level": l, "mode": mode, "delta": d, "class": cls[mode]})
						}
					}
					if top < 40 {
						out = append(out, map[string]int{"v": 40, "level": l, "mode": mode, "delta": 1, "class": cls[mode]})
					}
				}
			}
			return out
		}})
	reg(&Oblig{ID: "QR-B", Pkg: "qr", Func: "VP_QR_blocks", Props: []string{"C01", "C12"},
		Desc:  "block split, Reed-Solomon per block and interleave for symbolic data codewords: the final sequence is the column-wise interleave of the ISO data blocks followed by the column-wise interleave of their check blocks, each with the ISO number of check codewords",
		Real:  []string{"(*utils.BitList).IterateBytes (goroutine)", "qr.splitToBlocks", "(qr.blockList).interleave", "(*qr.errorCorrection).calcECC"},
		Stubs: []string{oracle, rsStub}, Bound: "all data codewords symbolic; versions {1,2,3,5,7,10} x 4 levels quick; all 160 rows thorough",
		Configs: func(tier string, seed int64) []map[string]int {
			vs := []int{1, 2, 3, 5, 7, 10}
			if tier == "thorough" {
				vs = rng(1, 40)
			}
			var out []map[string]int
			for _, v := range vs {
				for l := 0; l < 4; l++ {
					if tier != "thorough" && v >= 7 && l == 0 {
						continue // long L blocks: tens of seconds each
					}
					out = append(out, map[string]int{"v": v, "level": l})
				}
			}
			return out
		},
		Tune: func(in *exec.Instance, tier string) {
			in.Redirect = map[string]string{rsEncode: "utils:VPRSEncodeSummary"}
		}})
	reg(&Oblig{ID: "QR-C", Pkg: "qr", Func: "VP_QR_render", Props: []string{"C01", "C12", "C11"},
		Desc:  "render for symbolic codewords: every module of the returned symbol equals the ISO layout (finder/separator/timing/alignment/dark module, both format words = BCH(level, mask) ^ 0x5412, both version words, zig-zag placement, the mask named by the format word, remainder bits) for whichever of the 8 candidates is chosen; pixel colours; bounds",
		Real:  []string{"qr.render", "qr.drawFinderPatterns", "qr.drawAlignmentPatterns", "(*qr.versionInfo).alignmentPatternPlacements (concrete floats)", "qr.drawFormatInfo", "qr.drawVersionInfo", "qr.iterateModules (2 goroutines)", "qr.setMasked", "(*qr.qrcode).Get/Set/At/Bounds", "qr.newBarCodeWithColor"},
		Stubs: []string{oracle, penStub}, Bound: "all codewords symbolic; versions {1,2,6,7,14,21,40} x levels quick (level varies with version); all 40 x 4 thorough",
		Configs: func(tier string, seed int64) []map[string]int {
			var out []map[string]int
			if tier == "thorough" {
				return cross(one("v", rng(1, 40)...), one("level", 0, 1, 2, 3))
			}
			for i, v := range []int{1, 2, 6, 7, 14, 21, 40} {
				out = append(out, map[string]int{"v": v, "level": i % 4}, map[string]int{"v": v, "level": (i + 2) % 4})
			}
			return out
		},
		Tune: func(in *exec.Instance, tier string) { in.Redirect = map[string]string{qrPenalty: "qr:vpPenaltyStub"} }})
	reg(&Oblig{ID: "QR-E", Pkg: "qr", Func: "VP_QR_e2e", Props: []string{"C01", "C11", "C13"},
		Desc:  "Encode / EncodeWithColor end to end on symbolic content: smallest version for the (densest) mode, and every module equals the reference pipeline (segment, padding, blocks, RS, interleave, placement, mask named by the format word); Content, metadata, colour scheme",
		Real:  []string{"qr.Encode", "qr.EncodeWithColor", "(qr.Encoding).getEncoder", "all of QR-A, QR-B, QR-C"},
		Stubs: []string{oracle, rsStub, penStub, "content class-constrained so that it is representable (digits / upper-case letters / bytes >= 0x80 / arbitrary bytes in byte mode); rejection is QR-A's subject"},
		Bound: "n <= 5 symbolic bytes per mode (quick), n <= 9 and a 40-character case (thorough) x levels x explicit and Auto mode",
		Configs: func(tier string, seed int64) []map[string]int {
			var out []map[string]int
			top := 5
			if tier == "thorough" {
				top = 9
			}
			q := 0
			for n := 0; n <= top; n++ {
				for _, mc := range [][2]int{{1, 1}, {2, 2}, {4, 0}, {0, 1}, {0, 2}, {0, 3}} {
					q++
					if tier != "thorough" && n >= 3 && q%2 == 0 {
						continue
					}
					if n == 0 && mc[0] == 0 {
						continue
					}
					if mc[1] == 2 && n > 3 {
						continue // alphanumeric pairs (45*c1+c2 against a 45-way lookup) under the RS layers: VCs exceed the time-out beyond 3 characters
					}
					out = append(out, map[string]int{"n": n, "level": q % 4, "mode": mc[0], "class": mc[1], "color": q % 2})
				}
			}
			if tier == "thorough" {
				out = append(out, map[string]int{"n": 40, "level": 1, "mode": 0, "class": 1, "color": 0}, map[string]int{"n": 40, "level": 3, "mode": 4, "class": 0, "color": 1})
			}
			return out
		},
		Tune: func(in *exec.Instance, tier string) {
			in.Redirect = map[string]string{rsEncode: "utils:VPRSEncodeSummary", qrPenalty: "qr:vpPenaltyStub"}
		}})
}
