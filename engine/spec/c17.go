package spec

import "vpengine/exec"

const gfMul = "(*github.com/boombuler/barcode/utils.GaloisField).Multiply"

func init() {
	gfReal := []string{"utils.NewGaloisField", "(*utils.GaloisField).Multiply", "(*utils.GaloisField).Divide", "(*utils.GaloisField).Invers", "(*utils.GaloisField).AddOrSub"}
	fields := []struct {
		pkg  string
		name string
		cfg  map[string]int
		size int
	}{
		{"aztec", "az4", map[string]int{"ws": 4}, 16}, {"aztec", "az6", map[string]int{"ws": 6}, 64}, {"aztec", "az8", map[string]int{"ws": 8}, 256},
		{"aztec", "az10", map[string]int{"ws": 10}, 1024}, {"aztec", "az12", map[string]int{"ws": 12}, 4096},
		{"qr", "qr", map[string]int{}, 256}, {"datamatrix", "dm", map[string]int{}, 256},
	}
	withCfg := func(base map[string]int, extra map[string]int) map[string]int {
		m := map[string]int{}
		for k, v := range base {
			m[k] = v
		}
		for k, v := range extra {
			m[k] = v
		}
		return m
	}
	for _, f := range fields {
		f := f
		src := "field obtained by executing the repo's own constructor (aztec.getGF / qr.newErrorCorrection / datamatrix.newErrorCorrection); oracle polynomial from ISO"
		reg(&Oblig{ID: "GF-tables-" + f.name, Pkg: f.pkg, Func: "VP_GF_tables", Props: []string{"C17"}, Desc: "table lemmas with symbolic index: ALog[i+1]=x*ALog[i], ALog[Log[a]]=a, alpha primitive",
			Real: gfReal, Stubs: []string{src}, Bound: "all indices of the field (symbolic, in chunks of 256)", Configs: func(string, int64) []map[string]int {
				var out []map[string]int
				for lo := 0; lo < f.size-1; lo += 256 {
					out = append(out, withCfg(f.cfg, map[string]int{"ilo": lo, "ihi": lo + 255}))
				}
				return out
			}})
		// Multiply: a symbolic over the whole field, b enumerated in chunks
		reg(&Oblig{ID: "GF-mul-" + f.name, Pkg: f.pkg, Func: "VP_GF_mul", Props: []string{"C17"}, Desc: "Multiply(a,b) = carry-less product mod field polynomial, commutative; a symbolic, b case-split",
			Real: gfReal, Stubs: []string{src}, Bound: "a: every element (symbolic); b: every element for fields up to 256 (quick) / 4096 (thorough); 32 / 16 seed-chosen b for GF(1024) / GF(4096) in quick",
			Configs: func(tier string, seed int64) []map[string]int {
				var out []map[string]int
				chunk := 16
				if f.size <= 256 || tier == "thorough" {
					for lo := 0; lo < f.size; lo += chunk {
						out = append(out, withCfg(f.cfg, map[string]int{"blo": lo, "bhi": lo + chunk - 1, "bstep": 1}))
					}
					return out
				}
				// quick tier, large field: 32 (GF(1024)) / 16 (GF(4096)) values spread by the seed
				nv := 32
				if f.size > 1024 {
					nv = 16
				}
				step := f.size / nv
				off := int(seed) % step
				if off < 0 {
					off = -off
				}
				for i := 0; i < nv; i += 4 {
					out = append(out, withCfg(f.cfg, map[string]int{"blo": off + i*step, "bhi": off + (i+3)*step, "bstep": step}))
				}
				return out
			},
			Tune: func(in *exec.Instance, tier string) {
				if f.size > 256 {
					in.VCBatch = 2
					in.VCTimeoutMs = 180000
				}
			}})
		if f.size <= 64 {
			reg(&Oblig{ID: "GF-mulsym-" + f.name, Pkg: f.pkg, Func: "VP_GF_mulsym", Props: []string{"C17"}, Desc: "both operands symbolic: reference product, commutativity, associativity",
				Real: gfReal, Stubs: []string{src}, Bound: "all triples of the field", Configs: func(string, int64) []map[string]int { return []map[string]int{withCfg(f.cfg, nil)} }})
		}
		reg(&Oblig{ID: "GF-inv-" + f.name, Pkg: f.pkg, Func: "VP_GF_inv", Props: []string{"C17"}, Desc: "a * Invers(a) = 1 for every non-zero a (symbolic)",
			Real: gfReal, Stubs: []string{src}, Bound: "all non-zero elements (symbolic, in chunks of 256)", Configs: func(string, int64) []map[string]int {
				var out []map[string]int
				for lo := 0; lo < f.size-1; lo += 256 {
					out = append(out, withCfg(f.cfg, map[string]int{"ilo": lo, "ihi": lo + 255}))
				}
				return out
			}})
		reg(&Oblig{ID: "GF-div-" + f.name, Pkg: f.pkg, Func: "VP_GF_div", Props: []string{"C17"}, Desc: "Divide(a,b) defined (no panic) for every b != 0 and Divide(a,b)*b = a; a symbolic, b case-split",
			Real: gfReal, Stubs: []string{src}, Bound: "a: every element; b: every non-zero element for fields up to 256, 64 seed-chosen for larger fields in quick, all in thorough",
			Configs: func(tier string, seed int64) []map[string]int {
				var out []map[string]int
				chunk := 32
				if f.size <= 256 || tier == "thorough" {
					for lo := 0; lo < f.size; lo += chunk {
						out = append(out, withCfg(f.cfg, map[string]int{"blo": lo, "bhi": lo + chunk - 1, "bstep": 1}))
					}
					return out
				}
				nv := 32
				if f.size > 1024 {
					nv = 16
				}
				step := f.size / nv
				off := 1 + int(seed)%step
				for i := 0; i < nv; i += 4 {
					out = append(out, withCfg(f.cfg, map[string]int{"blo": off + i*step, "bhi": off + (i+3)*step, "bstep": step}))
				}
				return out
			},
			Tune: func(in *exec.Instance, tier string) {
				if f.size > 256 {
					in.VCBatch = 1
					in.VCTimeoutMs = 180000
				}
			}})
		// Reed-Solomon
		rsReal := []string{"utils.NewReedSolomonEncoder", "(*utils.ReedSolomonEncoder).getPolynomial", "(*utils.ReedSolomonEncoder).Encode", "utils.NewGFPoly", "(*utils.GFPoly).Multiply", "(*utils.GFPoly).MultByMonominal", "(*utils.GFPoly).Divide", "(*utils.GFPoly).AddOrSubstract", "utils.NewMonominalPoly", "(*utils.GaloisField).Invers"}
		reg(&Oblig{ID: "RS-enc-" + f.name, Pkg: f.pkg, Func: "VP_RS_encode", Props: []string{"C17"}, Desc: "data||Encode(data,e) has zero syndromes at alpha^(base..base+e-1) for symbolic data, after a prior cache request d0",
			Real: rsReal, Stubs: []string{src, "(*GaloisField).Multiply summarised by the reference product (discharged by GF-mul-" + f.name + ")"},
			Bound: "k <= 2 data x e <= 4 check symbols (e <= 3 over GF(1024)/GF(4096)) and k = 3 x e <= 2, each with prior request d0 in {0, e+1} (quick); k <= 3 x e <= 6 (thorough); plus k = 1 with e in {7,10,13,17,30} (30 only for fields up to 256 elements) (quick) / also 24, 36, 45 (thorough), which pins the generator polynomials the callers request; larger e (68 for QR 40-x blocks) exceed the VC time-out and are outside the claim",
			Configs: func(tier string, seed int64) []map[string]int {
				var out []map[string]int
				kmax, emax := 3, 4
				if tier == "thorough" {
					kmax, emax = 3, 6
				}
				for k := 1; k <= kmax; k++ {
					for e := 1; e <= emax; e++ {
						for _, d0 := range []int{0, e + 1} {
							if k == 3 && e > 2 && tier != "thorough" {
								continue // affine feasibility queries over 24 data bits: several minutes per instance
							}
							if f.size > 256 && k >= 2 && e > 3 {
								continue // GF(1024)/GF(4096): the syndrome VC exceeds the time-out (both tiers)
							}
							out = append(out, withCfg(f.cfg, map[string]int{"k": k, "e": e, "d0": d0}))
						}
					}
				}
				// k = 1 with many check symbols pins the generator polynomials the callers request. Since both
				// sides of every zero-stripping branch are explored the remaining syndrome VC grows quickly with
				// e (e = 30: 20 s, e = 68: > 10 min), hence the small quick set.
				big := []int{7, 10, 13, 17, 30}
				if tier == "thorough" {
					big = []int{7, 10, 13, 17, 24, 30, 36, 45}
				}
				for _, e := range big {
					if f.size > 256 && e > 17 {
						continue // GF(1024)/GF(4096): e = 30 exceeds the VC time-out
					}
					if e < f.size-1 {
						out = append(out, withCfg(f.cfg, map[string]int{"k": 1, "e": e, "d0": 0}))
					}
				}
				return out
			},
			Tune: func(in *exec.Instance, tier string) { in.Redirect = map[string]string{gfMul: "utils:VPGFMulSummary"} }})
		reg(&Oblig{ID: "RS-cache-" + f.name, Pkg: f.pkg, Func: "VP_RS_cache", Props: []string{"C17", "C15"}, Desc: "generator cache: polynomial for a degree is the same whatever was requested before; has the required roots, monic",
			Real: rsReal, Stubs: []string{src}, Bound: "request pairs (d1,d2) over {0,1,2,5,9} x {0,1,3,8} quick; up to 70 thorough (concrete; the cache holds no symbolic data)",
			Configs: func(tier string, seed int64) []map[string]int {
				var out []map[string]int
				d1s, d2s := []int{0, 1, 2, 5, 9}, []int{0, 1, 3, 8}
				if tier == "thorough" {
					d1s, d2s = []int{0, 1, 2, 5, 9, 30, 70}, []int{0, 1, 3, 8, 29, 31, 68}
				}
				for _, a := range d1s {
					for _, b := range d2s {
						if a < f.size-1 && b < f.size-1 {
							out = append(out, withCfg(f.cfg, map[string]int{"d1": a, "d2": b}))
						}
					}
				}
				return out
			}})
	}
	reg(&Oblig{ID: "RS-fields", Pkg: "utils", Func: "VP_RS_fields", Props: []string{"C17", "C15"},
		Desc:  "encoders over different fields of the same size, used one after the other in one process (QR 0x11D/0, DataMatrix and Aztec 0x12D/1, 0x11D/1; GF(64) base 1 and 0, GF(16)): each one's check symbols have zero syndromes in its own field whatever the others computed or cached before (exported API only)",
		Real:  []string{"utils.NewGaloisField", "utils.NewReedSolomonEncoder", "(*utils.ReedSolomonEncoder).Encode", "(*utils.GFPoly).Multiply/Divide/AddOrSubstract"},
		Stubs: []string{"(*GaloisField).Multiply summarised by the reference product (discharged by GF-mul-*)"},
		Bound: "3 fields per set x 4 orders x (k,e) in {(2,2),(1,3)} x prior request d0 in {0,3}; symbolic data",
		Configs: func(tier string, seed int64) []map[string]int {
			var out []map[string]int
			for set := 0; set < 2; set++ {
				for order := 0; order < 4; order++ {
					for _, ke := range [][2]int{{2, 2}, {1, 3}} {
						for _, d0 := range []int{0, 3} {
							out = append(out, map[string]int{"set": set, "order": order, "k": ke[0], "e": ke[1], "d0": d0})
						}
					}
				}
			}
			return out
		},
		Tune: func(in *exec.Instance, tier string) { in.Redirect = map[string]string{gfMul: "utils:VPGFMulSummary"} }})
	reg(&Oblig{ID: "RS-conc", Pkg: "utils", Func: "VP_RS_concurrent", Props: []string{"C16"},
		Desc:  "two goroutines encode on one fresh encoder at the same time (both need uncached generator polynomials), run under the schedule where every Unlock is a preemption point: both results and a later call have zero syndromes; no panic, deadlock or leaked goroutine",
		Real:  []string{"utils.NewReedSolomonEncoder", "(*utils.ReedSolomonEncoder).getPolynomial", "(*utils.ReedSolomonEncoder).Encode", "sync.Mutex (owner model)"},
		Stubs: []string{"(*GaloisField).Multiply summarised by the reference product", "ONE schedule class, not all interleavings: goroutines are switched at channel operations and at every Mutex.Unlock (round robin); preemption inside a critical section or between unlocked instructions is not explored"},
		Bound: "fields GF(256)/0x11D base 0 and GF(64)/0x43 base 1; (e1, e2) in {(2,3), (3,2), (2,2)}; 2 + 1 symbolic data symbols",
		Configs: func(tier string, seed int64) []map[string]int {
			var out []map[string]int
			for _, f := range [][3]int{{0x11D, 256, 0}, {0x43, 64, 1}} {
				for _, e := range [][2]int{{2, 3}, {3, 2}, {2, 2}} {
					out = append(out, map[string]int{"pp": f[0], "size": f[1], "base": f[2], "e1": e[0], "e2": e[1]})
				}
			}
			return out
		},
		Tune: func(in *exec.Instance, tier string) {
			in.Redirect = map[string]string{gfMul: "utils:VPGFMulSummary"}
			in.YieldAtUnlock = true
		}})
	for _, pk := range []string{"qr", "datamatrix"} {
		reg(&Oblig{ID: "RS-shared-" + pk, Pkg: pk, Func: "VP_RS_shared", Props: []string{"C17", "C15"}, Desc: "the package-level shared encoder: right field, zero syndromes",
			Stubs: []string{"(*GaloisField).Multiply summarised by the reference product"}, Bound: "k = 2, e = 3, d0 in {0, 5}",
			Configs: func(string, int64) []map[string]int {
				return []map[string]int{{"k": 2, "e": 3, "d0": 0}, {"k": 2, "e": 3, "d0": 5}}
			},
			Tune: func(in *exec.Instance, tier string) { in.Redirect = map[string]string{gfMul: "utils:VPGFMulSummary"} }})
	}
	polyFields := []map[string]int{{"pp": 0x13, "size": 16, "base": 1}, {"pp": 0x11D, "size": 256, "base": 0}, {"pp": 0x12D, "size": 256, "base": 1}}
	polyCfgs := func(div bool) func(tier string, seed int64) []map[string]int {
		return func(tier string, seed int64) []map[string]int {
			var out []map[string]int
			n := 3
			if tier == "thorough" {
				n = 5
			}
			sd := int(seed % 1000)
			for fi, f := range polyFields {
				if tier != "thorough" && fi == 2 {
					continue
				}
				for na := 1; na <= n+1; na++ {
					for nb := 1; nb <= n; nb++ {
						for sel := 0; sel <= 5; sel++ {
							for swap := 0; swap <= 1; swap++ {
								if div && swap == 0 && (sel == 4 || (sel == 2 && nb == 1)) {
									continue // zero divisor
								}
								if div && swap == 1 && (nb > 2 || na > 3) {
									continue // symbolic divisor: path count grows quickly
								}
								if div && f["size"] > 16 && (na > 2 || nb > 2) && tier != "thorough" {
									continue // GF(256): affine feasibility queries over > 16 symbolic bits take minutes
								}
								if div && f["size"] > 16 && (na > 3 || nb > 2 || swap == 1) {
									continue
								}
								if tier != "thorough" && (sel+na+nb+swap)%2 == 1 && na+nb > 3 {
									continue // thin out the quick tier
								}
								out = append(out, withCfg(f, map[string]int{"na": na, "nb": nb, "sel": sel, "swap": swap, "seed": sd + na*31 + nb, "mono": (na + nb) % 3, "monoc": (sd*7 + na + 3*nb) % f["size"]}))
							}
						}
					}
				}
			}
			return out
		}
	}
	polyStubs := []string{"(*GaloisField).Multiply summarised by the reference product (discharged by GF-mul-*)",
		"one operand fully symbolic, the other a concrete polynomial (seed-chosen coefficients; shapes: all non-zero, interior zero, leading zero, single term, zero, monic), in both roles; both operands symbolic is outside the claim (bilinear equivalence query does not finish)"}
	reg(&Oblig{ID: "POLY-ops", Pkg: "utils", Func: "VP_POLY_ops", Props: []string{"C17"}, Desc: "GFPoly add, multiply, multiply-by-monomial against schoolbook reference polynomials; results normalised",
		Real:  []string{"utils.NewGFPoly", "(*utils.GFPoly).AddOrSubstract", "(*utils.GFPoly).Multiply", "(*utils.GFPoly).MultByMonominal", "(*utils.GFPoly).Zero", "(*utils.GFPoly).Degree"},
		Stubs: polyStubs, Bound: "coefficient lists up to 4 x 3 (quick) / 6 x 5 (thorough) over GF(16), GF(256)/0x11D (and /0x12D thorough)",
		Configs: polyCfgs(false),
		Tune:    func(in *exec.Instance, tier string) { in.Redirect = map[string]string{gfMul: "utils:VPGFMulSummary"} }})
	reg(&Oblig{ID: "POLY-div", Pkg: "utils", Func: "VP_POLY_divide", Props: []string{"C17"}, Desc: "GFPoly.Divide: dividend = q*divisor + r, deg r < deg divisor",
		Real:  []string{"(*utils.GFPoly).Divide", "(*utils.GFPoly).GetCoefficient", "(*utils.GaloisField).Invers", "utils.NewMonominalPoly"},
		Stubs: append(polyStubs, "divisor assumed non-zero (division by the zero polynomial does not terminate and is outside the documented use)"),
		Bound: "as POLY-ops", Configs: polyCfgs(true),
		Tune: func(in *exec.Instance, tier string) { in.Redirect = map[string]string{gfMul: "utils:VPGFMulSummary"} }})
}
