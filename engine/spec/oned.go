package spec

import "vpengine/exec"

func init() {
	reg(&Oblig{ID: "EAN", Pkg: "ean", Func: "VP_EAN", Props: []string{"C06", "C14", "C10", "C11"},
		Desc:  "EAN-8/13: acceptance exactly for 7/8/12/13 digits with a right check digit; Content = full number; CheckSum = GS1 check digit; kind; 67/95 modules; every module equals the L/G/R + parity + guard-bar spec encoder; colours, bounds, ColorModel/ColorScheme",
		Real:  []string{"ean.Encode", "ean.EncodeWithColor", "ean.calcCheckNum", "ean.encodeEAN8", "ean.encodeEAN13", "utils.RuneToInt", "utils.IntToRune", "utils.New1DCodeIntCheckSumWithColor", "(*utils.base1DCode).At/Bounds/Content/Metadata/ColorModel/ColorScheme", "(*utils.base1DCodeIntCS).CheckSum", "(*utils.BitList).AddBit/GetBit"},
		Stubs: []string{"errors.New / fmt opaque", "oracle tables: GS1 set A patterns; B, C derived by complement/mirror; parity table by first digit"},
		Bound: "content = n fully symbolic bytes for every n in 0..15 (all 256 values per byte, so invalid UTF-8 and non-digits included), split into two complementary instances by assumption (all bytes digits / some byte not a digit); plain Encode and EncodeWithColor with an opaque scheme",
		Configs: func(tier string, seed int64) []map[string]int {
			var out []map[string]int
			for n := 0; n <= 15; n++ {
				for c := 0; c <= 1; c++ {
					if c == 1 && !(n == 7 || n == 8 || n == 12 || n == 13 || n == 3) {
						continue
					}
					for d := 0; d <= 1; d++ {
						if n == 0 && d == 0 {
							continue
						}
						out = append(out, map[string]int{"n": n, "color": c, "digits": d})
					}
				}
			}
			return out
		},
		Tune: func(in *exec.Instance, tier string) { in.VCBatch = 16 }})
}
