package pdf417

// Native validation of the ISO/IEC 15438 reference model in oracle_pdf417.go
// against the real library. Run in a scratch copy of the repository:
//
//	cp oracle_pdf417.go      <scratch>/pdf417/zz_vp_oracle_pdf417.go
//	cp oracle_pdf417_test.go <scratch>/pdf417/zz_vp_oracle_pdf417_test.go
//	GOFLAGS=-mod=mod GOPROXY=off GOSUMDB=off GOTOOLCHAIN=local go test -vet=off -count=1 -run VPOracle -v ./pdf417/
//
// The tests do not stop at the first disagreement: every disagreement class is
// collected and printed with the failing inputs.

import (
	"fmt"
	"image/color"
	"sort"
	"strings"
	"testing"
)

func vpTestLibTable(cluster, value int) int { return codewords[cluster][value] }

// ---------------------------------------------------------------------------
// (a) the pattern table
// ---------------------------------------------------------------------------

func TestVPOraclePatternTable(t *testing.T) {
	if len(codewords) != 3 {
		t.Fatalf("table has %d clusters", len(codewords))
	}
	seen := map[int]string{}
	bad := 0
	for cl := 0; cl < 3; cl++ {
		if len(codewords[cl]) != 929 {
			t.Errorf("cluster %d has %d entries", cl, len(codewords[cl]))
			continue
		}
		for v := 0; v < 929; v++ {
			p := codewords[cl][v]
			if !vpPdfPatternOK(cl, v, p) {
				bad++
				t.Errorf("pattern [%d][%d] = %#x is not a valid cluster-%d symbol character", cl, v, p, 3*cl)
			}
			id := fmt.Sprintf("[%d][%d]", cl, v)
			if o, dup := seen[p]; dup {
				t.Errorf("pattern %#x occurs twice: %s and %s", p, o, id)
			}
			seen[p] = id
		}
	}
	if vpPdfPatternOK(0, 0, vpPdfStartPattern) || vpPdfPatternOK(1, 0, vpPdfStartPattern) || vpPdfPatternOK(2, 0, vpPdfStartPattern) {
		t.Errorf("start pattern must not be a data pattern")
	}
	// negative controls for the checker itself
	p := codewords[0][0]
	for _, q := range []int{p ^ 1, p ^ (1 << 16), p | (1 << 17), 0x1FFFE, 0x15554, codewords[1][0], codewords[2][0]} {
		if vpPdfPatternOK(0, 0, q) {
			t.Errorf("vpPdfPatternOK accepts %#x for cluster 0", q)
		}
	}
	t.Logf("checked %d patterns, %d distinct, %d structurally invalid", 3*929, len(seen), bad)
}

// ---------------------------------------------------------------------------
// Reed-Solomon self checks and comparison with the library
// ---------------------------------------------------------------------------

func TestVPOracleRS(t *testing.T) {
	seed := uint32(12345)
	rnd := func(n int) int {
		seed = seed*1664525 + 1013904223
		return int(seed>>8) % n
	}
	for level := 0; level <= 8; level++ {
		k := vpPdfRSCount(level)
		a := vpPdfRSCoeffs(level)
		if len(a) != k {
			t.Fatalf("level %d: %d coefficients", level, len(a))
		}
		// g(3^i) = 0 for i = 1..k and g is monic of degree k
		alpha := 1
		for i := 1; i <= k; i++ {
			alpha = alpha * 3 % 929
			s := 1
			for j := k - 1; j >= 0; j-- {
				s = (s*alpha + a[j]) % 929
			}
			if s != 0 {
				t.Errorf("level %d: g(3^%d) = %d", level, i, s)
			}
		}
		// the library's factor table
		for j := 0; j < k; j++ {
			if correctionFactors[level][j] != a[j] {
				t.Errorf("level %d: library factor[%d] = %d, generator coefficient a_%d = %d", level, j, correctionFactors[level][j], j, a[j])
			}
		}
		for _, n := range []int{1, 2, 3, 7, 50, 300, 925 - k} {
			if n < 1 {
				continue
			}
			data := make([]int, n)
			for i := range data {
				data[i] = rnd(929)
			}
			if n == 7 {
				for i := range data {
					data[i] = 928
				}
			}
			ec := vpPdfRS(data, level)
			all := append(append([]int{}, data...), ec...)
			if !vpPdfSyndromesZero(all, level) {
				t.Errorf("level %d n %d: oracle check words do not give zero syndromes", level, n)
			}
			all[rnd(len(all))] += 1
			if vpPdfSyndromesZero(all, level) {
				t.Errorf("level %d n %d: syndromes still zero after corrupting a codeword", level, n)
			}
			lib := securitylevel(level).Compute(append([]int{}, data...))
			if fmt.Sprint(lib) != fmt.Sprint(ec) {
				t.Errorf("level %d n %d: library Compute differs from oracle\n data %v\n lib  %v\n ref  %v", level, n, data, lib, ec)
			}
		}
	}
}

// ---------------------------------------------------------------------------
// decoder self checks on hand-made codeword sequences (standard's examples)
// ---------------------------------------------------------------------------

func TestVPOracleDecoderVectors(t *testing.T) {
	cases := []struct {
		cw   []int
		want string
		ok   bool
	}{
		// ISO/IEC 15438 5.4.1.5 example: "PDF417" = P D | F ml | 4 1 | 7 ps
		{[]int{453, 178, 121, 239}, "PDF417", true},
		// 5.4.3.2-style example: bytes "alcool" (0x61 6C 63 6F 6F 6C) = 924, 163, 238, 432, 766, 244
		{[]int{924, 163, 238, 432, 766, 244}, "alcool", true},
		// the same five codewords under 901 with nothing after them are five single bytes > 255 -> invalid
		{[]int{901, 163, 238, 432, 766, 244}, "", false},
		// 901: group followed by one single byte
		{[]int{901, 163, 238, 432, 766, 244, 33}, "alcool!", true},
		// 5.4.4.2 example: 000213298174000 = 902, 1, 624, 434, 632, 282, 200
		{[]int{902, 1, 624, 434, 632, 282, 200}, "000213298174000", true},
		// byte shift inside text keeps the sub-mode: a b 913 0xE9 c d
		{[]int{27*30 + 0, 1*30 + 29, 913, 0xE9, 2*30 + 3}, "ab\xe9cd", true},
		// latch back to text resets to Alpha
		{[]int{27*30 + 0, 901, 200, 900, 0*30 + 1}, "a\xc8AB", true},
		// Punct latched, pad 29 = al: the following text is Alpha
		{[]int{28*30 + 25, 0*30 + 0, 0*30 + 29, 913, 1, 0*30 + 1}, ";;;\x01AB", true},
		// ps pad in Alpha before 913 is dropped
		{[]int{0*30 + 29, 913, 1, 1*30 + 2}, "A\x01BC", true},
		// ps used as a real shift: A ps ; B
		{[]int{0*30 + 29, 0*30 + 1}, "A;B", true},
		// as in Lower: ll a as B c
		{[]int{27*30 + 0, 27*30 + 1, 2*30 + 29}, "aBc", true},
		// trailing 900 pads
		{[]int{1, 900, 900, 900}, "AB", true},
		{[]int{902, 1, 624, 434, 632, 282, 200, 900, 900}, "000213298174000", true},
		{[]int{913}, "", false},
		{[]int{925, 3}, "", false},
		{[]int{902, 5}, "", false},
		{[]int{}, "", true},
	}
	for _, c := range cases {
		got, ok := vpPdfDecode(c.cw)
		if ok != c.ok || (ok && string(got) != c.want) {
			t.Errorf("vpPdfDecode(%v) = %q, %v; want %q, %v", c.cw, got, ok, c.want, c.ok)
		}
	}
}

// ---------------------------------------------------------------------------
// (b) end to end against Encode
// ---------------------------------------------------------------------------

type vpTestReport struct {
	classes map[string][]string
	order   []string
}

func (r *vpTestReport) add(class string, detail string) {
	if r.classes == nil {
		r.classes = map[string][]string{}
	}
	if _, ok := r.classes[class]; !ok {
		r.order = append(r.order, class)
	}
	r.classes[class] = append(r.classes[class], detail)
}

func vpTestInputs() []string {
	var in []string
	add := func(s ...string) { in = append(in, s...) }

	// upper / lower / mixed case / Mixed sub-mode / punctuation
	add("", "A", "AB", "ABC", "Z", " ", "HELLO WORLD", "ABCDEFGHIJKLMNOPQRSTUVWXYZ ", "THE QUICK BROWN FOX JUMPS OVER THE LAZY DOG")
	add("a", "ab", "abc", "hello world", "abcdefghijklmnopqrstuvwxyz ", "the quick brown fox")
	add("Hello World", "aB", "aBc", "aBcDeF", "AbCdEf", "Ab1c2D3", "PDF417 test 2024", "a1", "A1", "1a", "1A", "x9Y8z7", "Mixed Case And 123 Numbers")
	add("&\r\t,:#-.$/+%*=^", "12:30", "3.14", "$4.50", "1+1=2", "100%", "A&B", "a#b", "0", "7", "42", "1 2 3", "12 ABC 34 def 56")
	add(";", ";;", ";;;", ";;;;", ";;;;;", "<>@[\\]_`~!", "\r\t,:\n-.$/\"|*()?{}'", "a;b;c", "A!B?C", "{}'\"|()", "\n", "\n\n\n", "\n\n\n\n",
		"hello, world! (test)", "A;B", "a;b", "1;2", ";A", ";a", ";1", "!!!!!!", "!!!!!!!", "a!!!!b", "A????B", "[1]", "{a}", "<A>", "~~~~x", "____1", "@@@@A", "@@@@@A")
	// digit runs of 1..50 digits: alone, after text, before text, inside text
	for n := 1; n <= 50; n++ {
		d := strings.Repeat("1234567890", 5)[:n]
		z := strings.Repeat("0", n)
		nn := strings.Repeat("9", n)
		add(d, z, nn, "A"+d, d+"A", "ab"+d+"cd", ";"+d, d+";")
	}
	add(strings.Repeat("1234567890", 9)[:87], strings.Repeat("1234567890", 9)[:88], strings.Repeat("1234567890", 9)[:89], strings.Repeat("7", 132), strings.Repeat("7", 133))
	add("ABC"+strings.Repeat("5", 44)+"DEF", "ABC"+strings.Repeat("5", 45)+"def", strings.Repeat("5", 13)+"\x80"+strings.Repeat("5", 13))
	// byte runs of every length (mod 6): alone, after text, before text, between text
	for n := 1; n <= 20; n++ {
		var hi, lo, mix []byte
		for i := 0; i < n; i++ {
			hi = append(hi, byte(0x80+i*7))
			lo = append(lo, byte(1+i%8))
			mix = append(mix, byte(i*37+200))
		}
		for _, b := range []string{string(hi), string(lo), string(mix), strings.Repeat("\xff", n), strings.Repeat("\x00", n)} {
			add(b, "ABCDE"+b, b+"ABCDE", "abcde"+b+"fghij", "A"+b, b+"A", ";;;;;"+b+";;;;;", "123"+b+"456", strings.Repeat("9", 13)+b+strings.Repeat("8", 14))
		}
	}
	add(strings.Repeat("\xaa", 24), strings.Repeat("\xaa", 30), strings.Repeat("\xaa", 31), strings.Repeat("\xaa", 35), strings.Repeat("\xaa", 36), strings.Repeat("\xfe\x01\x80", 41))
	// single bytes inside text in every sub-mode, odd and even text lengths before the byte
	pre := []string{"", "A", "AB", "ABC", "a", "ab", "abc", "Ab", "1", "12", "1a", "a1", "A1b", ";", ";;", ";;;", ";;;;", "1;", "1;;", "1;;;", "1;;;;", "a;;;;", "a;;;", "A;;;", "A;;;;",
		"a;", "A;", "ab;", "AB;", "a!!!!!", "a!!!!", "A:", "1:", "1::::", "1:::::", "\n", "\n\n", "\n\n\n", "A\n\n\n", "A\n\n\n\n", "ABCDE", "abcde", "12345", ";;;;;", ";;;;;;"}
	post := []string{"", "A", "ABCDEF", "abcdef", "123456", ";;;;;;", "a", "1", ";", "Hello", "B;", "b1", " ", "AB", "ab"}
	for _, b := range []string{"\x01", "\xe9", "\x7f", "\x00", "\xff"} {
		for _, p := range pre {
			for _, q := range post {
				add(p + b + q)
			}
		}
	}
	add("1;;;;\x01ABCDEF", "AB\xe9CD", "ab\xffcd", ";;;\x01;;;", "a\x01b\x02c\x03d", "A\x80B\x81C", ";\x01;\x02;\x03;", "1;;;\x01;;;\x02ABC", "caf\xc3\xa9 au lait", "na\xc3\xafve caf\xc3\xa9s", "\xe2\x82\xac100")
	// text after bytes / numbers
	add("\x01\x02ABCDEF", "\x01\x02abcdef", "\x01\x02;;;;;;", "\x01\x02\x03\x04\x05\x06HELLO", strings.Repeat("3", 20)+"HELLO", strings.Repeat("3", 20)+"hello", strings.Repeat("3", 20)+";;;;;", strings.Repeat("3", 20)+"\x01")
	// lengths sweep to reach many row counts (rows%3 = 0, 1, 2) and the largest symbols
	for n := 1; n <= 120; n++ {
		add(strings.Repeat("A", n))
	}
	for _, n := range []int{150, 200, 256, 300, 400, 500, 600, 800, 1000, 1200, 1500, 1700, 1780, 1800, 1850} {
		add(strings.Repeat("AB", n/2))
	}
	for _, n := range []int{100, 500, 1000, 1100, 1109} {
		add(strings.Repeat("\x80", n))
	}
	for _, n := range []int{100, 1000, 2000, 2600, 2700} {
		add(strings.Repeat("8", n))
	}
	// pseudo random strings over several alphabets
	seed := uint32(2463534242)
	rnd := func(n int) int {
		seed ^= seed << 13
		seed ^= seed >> 17
		seed ^= seed << 5
		return int(seed>>4) % n
	}
	alpha := []string{
		"ABCDEFGHIJKLMNOPQRSTUVWXYZ ",
		"abcdefghijklmnopqrstuvwxyz ",
		"ABCXYZabcxyz 019",
		"0123456789&\r\t,:#-.$/+%*=^ ",
		";<>@[\\]_`~!\r\t,:\n-.$/\"|*()?{}'",
		"Aa1;\x01",
		"Aa1;:\n \x01\xe9",
		"0123456789",
		"\x00\x01\x7f\x80\xfe\xffA1",
	}
	for _, al := range alpha {
		for i := 0; i < 150; i++ {
			n := 1 + rnd(24)
			b := make([]byte, n)
			for j := range b {
				b[j] = al[rnd(len(al))]
			}
			add(string(b))
		}
	}
	for i := 0; i < 300; i++ {
		n := 1 + rnd(40)
		b := make([]byte, n)
		for j := range b {
			if rnd(4) == 0 {
				b[j] = byte(rnd(256))
			} else {
				b[j] = byte(32 + rnd(95))
			}
		}
		add(string(b))
	}
	// de-duplicate, keep order
	seen := map[string]bool{}
	var out []string
	for _, s := range in {
		if !seen[s] {
			seen[s] = true
			out = append(out, s)
		}
	}
	return out
}

func vpTestShort(s string) string {
	if len(s) > 70 {
		return fmt.Sprintf("%q...(len %d)", s[:60], len(s))
	}
	return fmt.Sprintf("%q", s)
}

func TestVPOracleEndToEnd(t *testing.T) {
	inputs := vpTestInputs()
	rep := &vpTestReport{}
	symbols, encErrors := 0, 0
	shapes := map[[2]int]bool{}
	rowsMod := map[int]int{}
	indic := map[string]string{} // distinct indicator disagreement -> first input

	for _, data := range inputs {
		for level := 0; level <= 8; level++ {
			tag := fmt.Sprintf("Encode(%s, %d)", vpTestShort(data), level)
			bc, err := Encode(data, byte(level))
			if err != nil {
				encErrors++
				hl, herr := highlevelEncode(data)
				if herr != nil {
					rep.add("highlevelEncode error", fmt.Sprintf("%s: %v", tag, herr))
					continue
				}
				// an error is only justified when no shape fits
				fits := false
				for r := 2; r <= 30; r++ {
					for c := 2; c <= 30; c++ {
						if vpPdfShapeOK(len(hl), level, r, c) {
							fits = true
						}
					}
				}
				if fits {
					rep.add("Encode fails although a legal shape exists", fmt.Sprintf("%s: %v (%d data words)", tag, err, len(hl)))
				}
				continue
			}
			symbols++
			if bc.Content() != data {
				rep.add("Content() differs from input", tag)
			}

			// image -> module rows
			b := bc.Bounds()
			if b.Min.X != 0 || b.Min.Y != 0 || b.Dy()%2 != 0 {
				rep.add("bounds", fmt.Sprintf("%s: %v", tag, b))
				continue
			}
			img := make([][]bool, b.Dy()/2)
			pixOK := true
			for r := range img {
				img[r] = make([]bool, b.Dx())
				for x := 0; x < b.Dx(); x++ {
					c0, c1 := bc.At(x, 2*r), bc.At(x, 2*r+1)
					if c0 != c1 {
						pixOK = false
					}
					if c0 != color.Black && c0 != color.White {
						pixOK = false
					}
					img[r][x] = c0 == color.Black
				}
			}
			if !pixOK {
				rep.add("pixel rows of a symbol row differ / unexpected color", tag)
			}

			res := vpPdfReadDetail(img, vpTestLibTable)
			if !res.geometryOK {
				rep.add("geometry", fmt.Sprintf("%s: %v", tag, b))
				continue
			}
			shapes[[2]int{res.rows, res.cols}] = true
			rowsMod[res.rows%3]++
			if !res.startStopOK {
				rep.add("start/stop pattern", tag)
			}
			if !res.patternsOK {
				rep.add("symbol character not in the cluster of its row", tag)
				continue
			}
			if !res.levelOK || res.level != level {
				rep.add("error correction level in row 1", fmt.Sprintf("%s: read %d", tag, res.level))
				continue
			}
			if !res.indicatorsOK {
				for r := 0; r < res.rows; r++ {
					el, er := vpPdfLeftIndicator(r, res.rows, res.cols, level), vpPdfRightIndicator(r, res.rows, res.cols, level)
					if res.left[r] != el {
						k := fmt.Sprintf("LEFT  indicator, rows=%2d (rows%%3=%d) row %2d (cluster %d): library %3d, standard %3d (diff %d)", res.rows, res.rows%3, r, r%3, res.left[r], el, res.left[r]-el)
						if _, ok := indic[k]; !ok {
							indic[k] = fmt.Sprintf("%s cols=%d", tag, res.cols)
						}
					}
					if res.right[r] != er {
						k := fmt.Sprintf("RIGHT indicator, rows=%2d (rows%%3=%d) row %2d (cluster %d): library %3d, standard %3d (diff %d)", res.rows, res.rows%3, r, r%3, res.right[r], er, res.right[r]-er)
						if _, ok := indic[k]; !ok {
							indic[k] = fmt.Sprintf("%s cols=%d", tag, res.cols)
						}
					}
				}
				rep.add("row indicators differ from ISO/IEC 15438", fmt.Sprintf("%s rows=%d cols=%d", tag, res.rows, res.cols))
			}
			if !res.lengthOK {
				rep.add("symbol length descriptor", fmt.Sprintf("%s: descriptor %d, rows*cols-k = %d", tag, res.codewords[0], res.rows*res.cols-vpPdfRSCount(level)))
				continue
			}
			if !res.syndromesOK {
				rep.add("syndromes not zero", tag)
			}
			n := res.codewords[0]
			if ec := vpPdfRS(res.codewords[:n], level); fmt.Sprint(ec) != fmt.Sprint(res.codewords[n:]) {
				rep.add("check codewords differ from vpPdfRS", tag)
			}
			if !res.decodeOK {
				rep.add("codeword sequence not valid per ISO/IEC 15438", fmt.Sprintf("%s: codewords %v -> %q", tag, res.codewords[1:n], res.payload))
			} else if string(res.payload) != data {
				rep.add("payload read back differs", fmt.Sprintf("%s: codewords %v read as %s", tag, res.codewords[1:n], vpTestShort(string(res.payload))))
			}

			// shape
			hl, herr := highlevelEncode(data)
			if herr != nil {
				rep.add("highlevelEncode error", tag)
			} else {
				if !vpPdfShapeOK(len(hl), level, res.rows, res.cols) {
					rep.add("shape", fmt.Sprintf("%s: %d data words, rows=%d cols=%d", tag, len(hl), res.rows, res.cols))
				}
				pads := n - 1 - len(hl)
				same := pads >= 0
				for i := 0; same && i < len(hl); i++ {
					same = res.codewords[1+i] == hl[i]
				}
				for i := 1 + len(hl); same && i < n; i++ {
					same = res.codewords[i] == 900
				}
				if !same {
					rep.add("data region is not highlevelEncode output + 900 pads", tag)
				}
			}

			// the matrix model must reproduce the image from the codewords
			mx := vpPdfMatrix(res.rows, res.cols, level, res.codewords, vpTestLibTable)
			diffOther := ""
			diffLeft0 := false
			if len(mx) != len(img) || len(mx[0]) != len(img[0]) {
				diffOther = "size"
			} else {
				for r := range mx {
					for x := range mx[r] {
						if mx[r][x] != img[r][x] {
							ch := x / 17
							if ch == 1 && r%3 == 0 {
								diffLeft0 = true
							} else if diffOther == "" {
								diffOther = fmt.Sprintf("row %d module %d (symbol character %d)", r, x, ch)
							}
						}
					}
				}
			}
			if diffOther != "" {
				rep.add("vpPdfMatrix differs from the image outside cluster-0 left indicators", fmt.Sprintf("%s: %s", tag, diffOther))
			}
			if diffLeft0 {
				rep.add("vpPdfMatrix differs from the image in the left indicator of rows with row%3==0", fmt.Sprintf("%s rows=%d cols=%d", tag, res.rows, res.cols))
			}
			if diffLeft0 == res.indicatorsOK {
				rep.add("matrix / indicator checks inconsistent", tag)
			}
			_, r2, c2, l2, ok2 := vpPdfRead(img, vpTestLibTable)
			if r2 != res.rows || c2 != res.cols || l2 != res.level || ok2 != res.allOK() {
				rep.add("vpPdfRead wrapper", tag)
			}
		}
	}

	t.Logf("%d inputs x 9 levels: %d symbols, %d Encode errors, %d distinct shapes, rows%%3 histogram %v", len(inputs), symbols, encErrors, len(shapes), rowsMod)
	minR, maxR, minC, maxC := 99, 0, 99, 0
	for s := range shapes {
		if s[0] < minR {
			minR = s[0]
		}
		if s[0] > maxR {
			maxR = s[0]
		}
		if s[1] < minC {
			minC = s[1]
		}
		if s[1] > maxC {
			maxC = s[1]
		}
	}
	t.Logf("rows %d..%d, cols %d..%d", minR, maxR, minC, maxC)

	if len(indic) > 0 {
		var keys []string
		for k := range indic {
			keys = append(keys, k)
		}
		sort.Strings(keys)
		var sb strings.Builder
		for _, k := range keys {
			sb.WriteString("  " + k + "   e.g. " + indic[k] + "\n")
		}
		t.Errorf("distinct row indicator disagreements (%d):\n%s", len(keys), sb.String())
	}
	for _, class := range rep.order {
		list := rep.classes[class]
		max := len(list)
		full := strings.HasPrefix(class, "payload") || strings.HasPrefix(class, "codeword sequence") || strings.HasPrefix(class, "Encode fails")
		if !full && max > 12 {
			max = 12
		}
		var sb strings.Builder
		for _, d := range list[:max] {
			sb.WriteString("  " + d + "\n")
		}
		if max < len(list) {
			sb.WriteString(fmt.Sprintf("  ... and %d more\n", len(list)-max))
		}
		t.Errorf("DISAGREEMENT %q: %d cases\n%s", class, len(list), sb.String())
	}
}

// ---------------------------------------------------------------------------
// text compaction step: encodeText from every sub-mode against vpPdfDecodeText
// ---------------------------------------------------------------------------

func TestVPOracleTextStep(t *testing.T) {
	texts := []string{"A", "a", "1", ";", " ", "AB", "ab", "12", ";;", "A;", ";A", "a;", ";a", "1;", ";1", "Aa", "aA", "a1", "1a", "A1", "1A",
		"ABC", "abc", "123", ";;;", "aBc", "A;B", "a;b", "1;2", ";;A", ";;a", ";;1", "A\n", "\n\n\n", "a\nb", ",", ",,", ",,,", "a,", "A,b", "1,", "#", "##", "a#", "A#", "!#", "#!",
		"ABCD", ";;;;", "a;;;", "A;;;", "1;;;", "a;;;;", "Hello, World!", "x(1)", "[A]", "{a}", "1;;;;", "~A~a~1~"}
	rep := &vpTestReport{}
	names := []string{"Alpha", "Lower", "Mixed", "Punct"}
	n := 0
	for _, s := range texts {
		for sub := 0; sub < 4; sub++ {
			end, cw := encodeText([]rune(s), subUpper+subMode(sub))
			got, endRef, ok := vpPdfDecodeText(cw, sub)
			n++
			tag := fmt.Sprintf("encodeText(%q, %s) = %v, returns %s", s, names[sub], cw, names[int(end-subUpper)])
			if !ok || string(got) != s {
				rep.add("text decodes differently", fmt.Sprintf("%s: decodes to %q ok=%v", tag, got, ok))
			}
			if endRef != int(end-subUpper) {
				rep.add("returned sub-mode is not the sub-mode a reader is in", fmt.Sprintf("%s: reader is in %s", tag, names[endRef]))
			}
		}
	}
	t.Logf("%d encodeText calls", n)
	for _, class := range rep.order {
		list := rep.classes[class]
		t.Errorf("DISAGREEMENT %q: %d cases\n  %s", class, len(list), strings.Join(list, "\n  "))
	}
}
