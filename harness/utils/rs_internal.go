package utils

// Reed-Solomon obligations that look inside the encoder (its field, its generator cache).

// VPGFOf exposes the field of an encoder to harnesses in other packages.
func VPGFOf(rs *ReedSolomonEncoder) *GaloisField { return rs.gf }

// VPCheckEncode: data||Encode(data,e) vanishes at alpha^(base) .. alpha^(base+e-1),
// whatever degrees were requested from the encoder before (config d0).
func VPCheckEncode(rs *ReedSolomonEncoder, pp int) {
	gf := rs.gf
	k, e, d0 := vpConfig("k"), vpConfig("e"), vpConfig("d0")
	if d0 > 0 {
		rs.getPolynomial(d0)
	}
	data := vpCheckEncodeCore(gf, pp, "d", k, e, rs.Encode)
	// cache shape after the call
	want := e
	if d0 > want {
		want = d0
	}
	vpAssert(len(rs.polynomes) >= want+1, "generator cache holds at least the degrees 0..max requested")
	for d := 0; d < len(rs.polynomes); d++ {
		p := rs.polynomes[d]
		vpAssert(len(p.Coefficients) == d+1 && p.Coefficients[0] == 1, "cached generator polynomial d is monic of degree d")
	}
	vpCover("all-zero-data-excluded", k > 0 && data[0] != 0)
}

// VPCheckCache: the generator cache is history-free: after any two requests
// (d1 then d2) every cached polynomial equals the one a fresh encoder computes,
// and each has exactly the required roots.
func VPCheckCache(mk func() *ReedSolomonEncoder, pp int) {
	d1, d2 := vpConfig("d1"), vpConfig("d2")
	rs := mk()
	gf := rs.gf
	m := VPLog2(gf.Size)
	p1 := rs.getPolynomial(d1)
	p2 := rs.getPolynomial(d2)
	fresh1 := mk().getPolynomial(d1)
	fresh2 := mk().getPolynomial(d2)
	same := func(a, b *GFPoly) bool {
		if len(a.Coefficients) != len(b.Coefficients) {
			return false
		}
		for i := range a.Coefficients {
			if a.Coefficients[i] != b.Coefficients[i] {
				return false
			}
		}
		return true
	}
	vpAssert(same(p1, fresh1), "polynomial of degree d1 does not depend on history")
	vpAssert(same(p2, fresh2), "polynomial of degree d2 does not depend on history")
	vpAssert(same(rs.getPolynomial(d1), fresh1), "a cached polynomial is not disturbed by later requests")
	for j := 0; j < d2; j++ {
		root := VPPowRef(pp, m, gf.Base+j)
		acc := 0
		for _, c := range p2.Coefficients {
			acc = VPGFMulRef(pp, m, acc, root) ^ c
		}
		vpAssert(acc == 0, "generator polynomial vanishes at alpha^(base+j)")
	}
	vpAssert(len(p2.Coefficients) == d2+1 && p2.Coefficients[0] == 1, "generator polynomial is monic of the requested degree")
	vpCover("reached", true)
}

// VPRSEncodeSummary stands in for (*ReedSolomonEncoder).Encode where a pipeline harness cuts
// there (assume side): the remainder of data * x^e modulo the generator polynomial
// prod_{i<e} (x - alpha^(base+i)), computed with the reference product only. It is GF(2)-linear
// in the data bits. Guarantee side: the RS-enc obligations of C17 run the real Encode.
func VPRSEncodeSummary(rs *ReedSolomonEncoder, data []int, eccCount int) []int {
	gf := rs.gf
	m := VPLog2(gf.Size)
	pp := gf.Size | gf.ALogTbl[m]
	gen := []int{1}
	for i := 0; i < eccCount; i++ {
		root := VPPowRef(pp, m, gf.Base+i)
		next := make([]int, len(gen)+1)
		for j, c := range gen {
			next[j] ^= c
			next[j+1] ^= VPGFMulRef(pp, m, c, root)
		}
		gen = next
	}
	rem := make([]int, eccCount)
	for _, d := range data {
		fb := d ^ rem[0]
		for j := 0; j < eccCount-1; j++ {
			rem[j] = rem[j+1] ^ VPGFMulRef(pp, m, fb, gen[j+1])
		}
		rem[eccCount-1] = VPGFMulRef(pp, m, fb, gen[eccCount])
	}
	return rem
}
